//! C36 — bloom filter never loses keys; hash index lookups are exact.
//! Drives BloomFilter and HashIndex with random histories; emits cases for Checks/C36.v.
use inputlayer::bloom_filter::BloomFilter;
use inputlayer::hash_index::{HashIndex, JoinKeySpec};
use inputlayer::value::{Tuple, Value};
use vharness::*;

fn big(words: &[u64]) -> String {
    // Σ words[i] << 64 i  as a decimal string (schoolbook, base 1e9)
    let mut digits: Vec<u32> = vec![0]; // little-endian base 1e9
    for w in words.iter().rev() {
        // digits = digits * 2^64 + w   (do it as two 32-bit steps)
        for part in [(*w >> 32) as u32, (*w & 0xFFFF_FFFF) as u32] {
            let mut carry: u64 = part as u64;
            for d in digits.iter_mut() {
                let cur = (*d as u64) * (1u64 << 32) + carry;
                *d = (cur % 1_000_000_000) as u32;
                carry = cur / 1_000_000_000;
            }
            while carry > 0 {
                digits.push((carry % 1_000_000_000) as u32);
                carry /= 1_000_000_000;
            }
        }
    }
    let mut s = format!("{}", digits.last().unwrap());
    for d in digits.iter().rev().skip(1) {
        s.push_str(&format!("{:09}", d));
    }
    s
}

fn gen_value(r: &mut Rng) -> Value {
    match r.below(6) {
        0 => Value::Int64(r.range(0, 3)),
        1 => Value::Int32(r.range(0, 3) as i32),
        2 => Value::String(["a", "b", "", "ab"][r.below(4) as usize].into()),
        3 => Value::Bool(r.chance(1, 2)),
        4 => Value::Float64([0.0, -0.0, 1.5, f64::NAN][r.below(4) as usize]),
        _ => Value::Null,
    }
}

fn main() {
    let args = parse_args();
    let mut rng = Rng::new(args.seed);
    let mut sink = Sink::new(
        &args,
        "From IL Require Import Checks.C36.",
        "c36case",
        "c36_check",
        50,
    );
    for case_no in 0..args.n {
        if case_no % 2 == 0 {
            // ---------------- bloom filter history
            let num_bits = *rng.pick(&[0u64, 1, 63, 64, 65, 128, 200, 1000]);
            let num_hashes = *rng.pick(&[0u64, 1, 2, 3, 7, 32, 40]);
            let mut f = BloomFilter::with_params(num_bits as usize, num_hashes as usize);
            let domain = rng.range(2, 12) as u64;
            let nops = rng.range(1, 25);
            let mut ops = vec![];
            let mut desc = vec![];
            let mut nontriv = false;
            for _ in 0..nops {
                let key = rng.below(domain) as i64;
                let kt = Tuple::new(vec![Value::Int64(key), Value::String(format!("k{}", key % 3).into())]);
                let (h1, h2) = f.verif_hash_pair(&kt);
                match rng.below(10) {
                    0 => {
                        f.clear();
                        ops.push("C36Clear".to_string());
                        desc.push("clear".to_string());
                    }
                    1..=4 => {
                        f.insert(&kt);
                        ops.push(format!("(C36Ins {} {} {})", coq_n(key as u128), coq_n(h1 as u128), coq_n(h2 as u128)));
                        desc.push(format!("insert {}", key));
                    }
                    _ => {
                        let res = f.might_contain(&kt);
                        if !res {
                            nontriv = true;
                        }
                        ops.push(format!(
                            "(C36Query {} {} {} {})",
                            coq_n(key as u128),
                            coq_n(h1 as u128),
                            coq_n(h2 as u128),
                            coq_bool(res)
                        ));
                        desc.push(format!("query {} -> {}", key, res));
                    }
                }
            }
            let coq = format!(
                "C36Bloom {} {} {} {} {} {}",
                coq_n(num_bits as u128),
                coq_n(num_hashes as u128),
                coq_list(&ops),
                coq_n(f.num_bits() as u128),
                coq_n(f.num_hashes() as u128),
                format!("{}%N", big(f.verif_words()))
            );
            sink.tally("kind:bloom");
            let key = if nontriv { Some(format!("bloom {} {} {:?}", num_bits, num_hashes, desc)) } else { None };
            sink.push(
                coq,
                serde_json::json!({"kind":"bloom","num_bits":num_bits,"num_hashes":num_hashes,"ops":desc}),
                &["bloom"],
                key,
            );
        } else {
            // ---------------- hash index history
            let arity = rng.range(1, 3) as usize;
            let ncols = rng.range(1, 2) as usize;
            let mut cols: Vec<usize> = (0..ncols).map(|_| rng.below(arity as u64 + 1) as usize).collect();
            if rng.chance(1, 2) {
                cols.dedup();
            }
            // every 40th index case is a LONG history that outgrows the size the index was created for
            // (several hundred inserts over a large key domain)
            let long = case_no % 80 == 1;
            let expected = if long { *rng.pick(&[0usize, 1, 100]) } else { *rng.pick(&[0usize, 1, 10, 200]) };
            let mut idx = HashIndex::new(JoinKeySpec::new("r", cols.clone()), expected);
            let pool: Vec<Tuple> = if long {
                (0..400).map(|i| Tuple::new((0..arity).map(|c| Value::Int64(if c == 0 { i } else { rng.range(0, 3) })).collect())).collect()
            } else {
                (0..rng.range(2, 6)).map(|_| Tuple::new((0..arity).map(|_| gen_value(&mut rng)).collect())).collect()
            };
            let nops = if long { rng.range(260, 420) } else { rng.range(1, 16) };
            if long {
                sink.tally("kind:index-long-history");
            }
            let mut ops = vec![];
            let mut desc = vec![];
            let mut keys: Vec<Tuple> = vec![];
            let mut nontriv = false;
            let hook_filter = BloomFilter::with_params(64, 1);
            for opno in 0..nops {
                let t = if long { pool[(opno as usize) % pool.len()].clone() } else { rng.pick(&pool).clone() };
                match if long { [2u64, 2, 2, 2, 2, 2, 2, 4, 7, 7][rng.below(10) as usize] } else { rng.below(10) } {
                    0 => {
                        let n = rng.below(4) as usize;
                        let ts: Vec<Tuple> = (0..n).map(|_| rng.pick(&pool).clone()).collect();
                        idx.build_from_tuples(ts.clone());
                        for t in &ts {
                            keys.push(t.from_indices(&cols));
                        }
                        ops.push(format!("(C36Build {})", coq_tuples(&ts)));
                        desc.push(format!("build {:?}", ts));
                    }
                    1..=3 => {
                        idx.insert(t.clone());
                        keys.push(t.from_indices(&cols));
                        ops.push(format!("(C36HIns {})", coq_tuple(&t)));
                        desc.push(format!("insert {:?}", t));
                    }
                    4..=5 => {
                        let r = idx.remove(&t);
                        keys.push(t.from_indices(&cols));
                        ops.push(format!("(C36HRem {} {})", coq_tuple(&t), coq_bool(r)));
                        desc.push(format!("remove {:?} -> {}", t, r));
                    }
                    _ => {
                        let k = if rng.chance(3, 4) {
                            t.from_indices(&cols)
                        } else {
                            Tuple::new(vec![gen_value(&mut rng)])
                        };
                        keys.push(k.clone());
                        let got: Vec<Tuple> = idx.get_with_bloom(&k).cloned().unwrap_or_default();
                        let got_plain: Vec<Tuple> = idx.probe(&k).cloned().collect();
                        assert_eq!(got, got_plain);
                        if !got.is_empty() {
                            nontriv = true;
                        }
                        ops.push(format!("(C36HGet {} {})", coq_tuple(&k), coq_tuples(&got)));
                        desc.push(format!("get {:?} -> {:?}", k, got));
                    }
                }
            }
            if long {
                // final sweep: every key that was ever inserted is probed once, so a single lost key is seen
                let mut seen: Vec<Tuple> = vec![];
                for k in keys.clone() {
                    if seen.contains(&k) {
                        continue;
                    }
                    seen.push(k.clone());
                    let got: Vec<Tuple> = idx.get_with_bloom(&k).cloned().unwrap_or_default();
                    ops.push(format!("(C36HGet {} {})", coq_tuple(&k), coq_tuples(&got)));
                }
                desc.push(format!("final sweep over {} keys", seen.len()));
            }
            // hash table for every key the model may need
            let mut table = vec![];
            for k in &keys {
                let (h1, h2) = hook_filter.verif_hash_pair(k);
                table.push(format!("({}, ({}, {}))", coq_tuple(k), coq_n(h1 as u128), coq_n(h2 as u128)));
            }
            let b = idx.verif_bloom();
            let colsv: Vec<String> = cols.iter().map(|c| coq_nat(*c)).collect();
            let coq = format!(
                "C36Index {} {} {} {} {} {}",
                coq_list(&colsv),
                coq_n(b.num_bits() as u128),
                coq_n(b.num_hashes() as u128),
                coq_list(&table),
                coq_list(&ops),
                format!("{}%N", big(b.verif_words()))
            );
            sink.tally("kind:index");
            let key = if nontriv { Some(format!("index {:?} {:?}", cols, desc)) } else { None };
            sink.push(coq, serde_json::json!({"kind":"index","key_columns":cols,"ops":desc}), &["index"], key);
        }
    }
    sink.finish();
}
