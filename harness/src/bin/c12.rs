//! C12 — every stored value survives restart unchanged.
//! Inserts tuples of every value kind (and column-wise mixes of kinds) into a schema-less relation
//! under buffer sizes that exercise both the WAL path and the batch-file path, then drops the engine
//! and reopens the same directory; records the relation (values AND value types) before and after,
//! or the failure to reopen; emits cases for Checks/C12.v.
use inputlayer::value::{Tuple, Value};
use inputlayer::{Config, StorageEngine};
use vharness::*;

const KG: &str = "default";
const REL: &str = "r";

#[derive(Clone, Debug)]
enum Op {
    Ins(Vec<Tuple>),
    Del(Vec<Tuple>),
    Save,
}

fn pool(kind: u64) -> Vec<Value> {
    match kind {
        0 => vec![Value::Int32(0), Value::Int32(7), Value::Int32(-3)],
        1 => vec![Value::Int64(0), Value::Int64(7), Value::Int64(1 << 40), Value::Int64(-5)],
        2 => vec![Value::Float64(0.0), Value::Float64(-0.0), Value::Float64(1.5), Value::Float64(-2.25e10), Value::Float64(1e300)],
        3 => vec![Value::String("".into()), Value::String("a".into()), Value::String("h\u{e9} \"q\"".into())],
        4 => vec![Value::Bool(true), Value::Bool(false)],
        5 => vec![Value::Null],
        6 => vec![Value::Timestamp(0), Value::Timestamp(1_700_000_000_000)],
        7 => vec![Value::Vector(vec![1.0f32, 2.0].into()), Value::Vector(vec![-0.0f32, 3.5].into()), Value::Vector(vec![0.25f32, 1e-3].into())],
        8 => vec![Value::VectorInt8(vec![1i8, -2].into()), Value::VectorInt8(vec![127i8, -128].into())],
        // deviations inside a kind
        9 => vec![Value::Float64(f64::NAN), Value::Float64(f64::INFINITY), Value::Float64(f64::NEG_INFINITY)],
        10 => vec![Value::Vector(vec![1.0f32].into()), Value::Vector(vec![].into()), Value::Vector(vec![1.0f32, 2.0, 3.0].into())],
        11 => vec![Value::VectorInt8(vec![5i8].into()), Value::VectorInt8(vec![].into())],
        _ => vec![Value::Vector(vec![f32::NAN, 1.0].into())],
    }
}
const NKINDS: u64 = 13;

fn raw(e: &StorageEngine) -> Vec<Tuple> {
    e.get_rules_and_data(KG).map(|(_, d)| d.get(REL).cloned().unwrap_or_default()).unwrap_or_default()
}

struct Outcome {
    steps: Vec<String>,
    desc: Vec<String>,
    before: Vec<Tuple>,
    restart_ok: bool,
    after: Vec<Tuple>,
    panicked: bool,
}

fn run_history(ops: &[Op], buffer: usize) -> Outcome {
    let dir = tempfile::tempdir().expect("tempdir");
    let mut cfg = Config::default();
    cfg.storage.data_dir = dir.path().to_path_buf();
    cfg.storage.persist.buffer_size = buffer;
    cfg.storage.performance.num_threads = 1;
    let eng = StorageEngine::new(cfg.clone()).expect("open fresh store");
    let mut steps = vec![];
    let mut desc = vec![];
    let mut panicked = false;
    for op in ops {
        // a panic inside the engine (e.g. while building an Arrow array) is an observable failure
        let eng_ref = std::panic::AssertUnwindSafe(&eng);
        match op {
            Op::Ins(ts) => {
                let ts2 = ts.clone();
                let r = catch(move || eng_ref.insert_tuples_into(KG, REL, ts2).map_err(|e| e.to_string()));
                let ok = matches!(r, Ok(Ok(_)));
                if r.is_err() {
                    panicked = true;
                }
                steps.push(format!("(C12Ins {} {})", coq_tuples(ts), coq_bool(ok)));
                desc.push(format!("insert {:?} => {:?}", ts.iter().map(|t| format!("{:?}", t.values())).collect::<Vec<_>>(), r));
            }
            Op::Del(ts) => {
                let ts2 = ts.clone();
                let r = catch(move || eng_ref.delete_tuples_from(KG, REL, ts2).map_err(|e| e.to_string()));
                let ok = matches!(r, Ok(Ok(_)));
                if r.is_err() {
                    panicked = true;
                }
                steps.push(format!("(C12Del {} {})", coq_tuples(ts), coq_bool(ok)));
                desc.push(format!("delete {:?} => {:?}", ts.iter().map(|t| format!("{:?}", t.values())).collect::<Vec<_>>(), r));
            }
            Op::Save => {
                let r = catch(move || eng_ref.save_all().map_err(|e| e.to_string()));
                let ok = matches!(r, Ok(Ok(_)));
                if r.is_err() {
                    panicked = true;
                }
                steps.push(format!("(C12Save {})", coq_bool(ok)));
                desc.push(format!("save => {:?}", r));
            }
        }
        if panicked {
            break;
        }
    }
    let before = if panicked { vec![] } else { raw(&eng) };
    if panicked {
        // locks may be poisoned; leak the engine instead of running its destructors
        std::mem::forget(eng);
    } else {
        drop(eng);
    }
    let cfg2 = cfg.clone();
    let reopened = catch(move || StorageEngine::new(cfg2).map(|e| raw(&e)).map_err(|e| e.to_string()));
    let (restart_ok, after) = match &reopened {
        Ok(Ok(ts)) => (true, ts.clone()),
        _ => (false, vec![]),
    };
    desc.push(format!("before restart: {:?}", before.iter().map(|t| format!("{:?}", t.values())).collect::<Vec<_>>()));
    desc.push(match &reopened {
        Ok(Ok(ts)) => format!("after restart:  {:?}", ts.iter().map(|t| format!("{:?}", t.values())).collect::<Vec<_>>()),
        Ok(Err(e)) => format!("restart FAILED: {}", e),
        Err(p) => format!("restart PANICKED: {}", p),
    });
    Outcome { steps, desc, before, restart_ok, after, panicked }
}

fn emit(sink: &mut Sink, ops: &[Op], buffer: usize, tag: &'static str) {
    if !sink.wants(sink.next_idx()) {
        sink.push(String::new(), serde_json::json!(null), &[tag], None);
        return;
    }
    let o = run_history(ops, buffer);
    let coq = format!(
        "C12Case {} {} {} {} {} {}",
        coq_n(buffer as u128),
        coq_list(&o.steps),
        coq_bool(o.panicked),
        coq_tuples(&o.before),
        coq_bool(o.restart_ok),
        coq_tuples(&o.after)
    );
    sink.tally(&format!("buffer:{}", buffer));
    let mut kinds = std::collections::BTreeSet::new();
    for op in ops {
        if let Op::Ins(ts) = op {
            for t in ts {
                for v in t.values() {
                    kinds.insert(format!("{:?}", v.data_type()));
                }
            }
        }
        sink.tally(match op {
            Op::Ins(_) => "op:insert",
            Op::Del(_) => "op:delete",
            Op::Save => "op:save",
        });
    }
    for k in &kinds {
        sink.tally(&format!("kind:{}", k));
    }
    sink.tally(if o.restart_ok { "restart:ok" } else { "restart:failed" });
    // non-trivial = at least one tuple is stored at the restart
    let key = if !o.before.is_empty() { Some(format!("{} {:?}", buffer, ops)) } else { None };
    sink.push(coq, serde_json::json!({"buffer_size": buffer, "steps": o.desc}), &[tag], key);
}

fn t1(v: Value) -> Tuple {
    Tuple::new(vec![v])
}

fn main() {
    let args = parse_args();
    let mut rng = Rng::new(args.seed);
    let mut sink = Sink::new(&args, "From IL Require Import Checks.C12.", "c12case", "c12_check", 25);
    let buffers = [1usize, 2, 10000];
    // ---- corpus: every kind alone (all its values, one batch and one-per-batch), under every buffer size
    for kind in 0..NKINDS {
        for &b in &buffers {
            let vals = pool(kind);
            emit(&mut sink, &[Op::Ins(vals.iter().cloned().map(t1).collect())], b, "corpus-kind");
            let ops: Vec<Op> = vals.iter().cloned().map(|v| Op::Ins(vec![t1(v)])).collect();
            emit(&mut sink, &ops, b, "corpus-kind");
        }
    }
    // ---- corpus: every ordered pair of kinds in one column (first value decides the batch column type)
    for k1 in 0..9u64 {
        for k2 in 0..9u64 {
            if k1 == k2 {
                continue;
            }
            let a = pool(k1)[0].clone();
            let bv = pool(k2).last().unwrap().clone();
            for &b in &buffers {
                emit(&mut sink, &[Op::Ins(vec![t1(a.clone())]), Op::Ins(vec![t1(bv.clone())])], b, "corpus-pair");
            }
            emit(&mut sink, &[Op::Ins(vec![t1(a.clone()), t1(bv.clone())])], 10000, "corpus-pair");
        }
    }
    // ---- random: binary relation, a base kind per column with occasional deviations
    for _ in 0..args.n {
        let b = *rng.pick(&buffers);
        let arity = rng.range(1, 2) as usize;
        let base: Vec<u64> = (0..arity).map(|_| rng.below(9)).collect();
        let deviate = rng.below(4); // 0: homogeneous; else chance of another kind per value
        let n_ops = rng.range(1, 5);
        let mut ops = vec![];
        let mut inserted: Vec<Tuple> = vec![];
        for _ in 0..n_ops {
            match rng.below(10) {
                0 => ops.push(Op::Save),
                1 if !inserted.is_empty() => ops.push(Op::Del(vec![rng.pick(&inserted).clone()])),
                _ => {
                    let n = rng.range(1, 3);
                    let ts: Vec<Tuple> = (0..n)
                        .map(|_| {
                            Tuple::new(
                                base.iter()
                                    .map(|&k| {
                                        let kk = if deviate > 0 && rng.chance(deviate, 8) { rng.below(NKINDS) } else { k };
                                        rng.pick(&pool(kk)).clone()
                                    })
                                    .collect(),
                            )
                        })
                        .collect();
                    inserted.extend(ts.iter().cloned());
                    ops.push(Op::Ins(ts));
                }
            }
        }
        emit(&mut sink, &ops, b, if deviate == 0 { "random-homogeneous" } else { "random-mixed" });
    }
    sink.finish();
}
