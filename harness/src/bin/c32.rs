//! C32 — relations are sets and write reports are accurate.
//! Sends histories of write statements (`+r[..]`, `-r(..)`, `-r[..]`, conditional delete, update)
//! through `Handler::query_program`, parses the counts out of the reply messages, reads the relation
//! after every statement; emits cases for Checks/C32.v.
use inputlayer::protocol::wire::WireValue;
use inputlayer::protocol::Handler;
use inputlayer::value::{Tuple, Value};
use inputlayer::{Config, StorageEngine};
use vharness::*;

const KG: &str = "default";

#[derive(Clone, Debug, PartialEq)]
enum Arg {
    X,
    Y,
    C(Value),
}
#[derive(Clone, Copy, Debug, PartialEq)]
enum CmpOp {
    Lt,
    Le,
    Gt,
    Ge,
    Eq,
    Ne,
}
#[derive(Clone, Debug, PartialEq)]
enum Cond {
    True,
    VC(bool, CmpOp, i64),
    VV(CmpOp),
}
#[derive(Clone, Debug)]
enum Op {
    Ins(Vec<Tuple>),
    Del(Tuple),
    Bulk(Vec<Tuple>),
    CondDel(Vec<Arg>, Cond),
    Upd(Vec<Arg>, Vec<Arg>, Cond),
    ApiIns(Vec<Tuple>),
    ApiDel(Vec<Tuple>),
}

fn val_text(v: &Value) -> String {
    match v {
        Value::Int64(i) => format!("{}", i),
        Value::String(s) => format!("\"{}\"", s),
        other => panic!("unsupported constant {:?}", other),
    }
}
fn tuple_text(t: &Tuple) -> String {
    format!("({})", t.values().iter().map(val_text).collect::<Vec<_>>().join(", "))
}
fn arg_text(a: &Arg) -> String {
    match a {
        Arg::X => "X".into(),
        Arg::Y => "Y".into(),
        Arg::C(v) => val_text(v),
    }
}
fn args_text(a: &[Arg]) -> String {
    a.iter().map(arg_text).collect::<Vec<_>>().join(", ")
}
fn op_text(o: CmpOp) -> &'static str {
    match o {
        CmpOp::Lt => "<",
        CmpOp::Le => "<=",
        CmpOp::Gt => ">",
        CmpOp::Ge => ">=",
        CmpOp::Eq => "=",
        CmpOp::Ne => "!=",
    }
}
fn cond_text(c: &Cond) -> Option<String> {
    match c {
        Cond::True => None,
        Cond::VC(y, o, k) => Some(format!("{} {} {}", if *y { "Y" } else { "X" }, op_text(*o), k)),
        Cond::VV(o) => Some(format!("X {} Y", op_text(*o))),
    }
}
fn stmt_text(op: &Op) -> String {
    match op {
        Op::Ins(ts) => format!("+r[{}]", ts.iter().map(tuple_text).collect::<Vec<_>>().join(", ")),
        Op::Del(t) => format!("-r{}", tuple_text(t)),
        Op::Bulk(ts) => format!("-r[{}]", ts.iter().map(tuple_text).collect::<Vec<_>>().join(", ")),
        Op::CondDel(h, c) => {
            let mut body = vec![format!("r({})", args_text(h))];
            if let Some(t) = cond_text(c) {
                body.push(t);
            }
            format!("-r({}) <- {}", args_text(h), body.join(", "))
        }
        Op::Upd(d, i, c) => {
            let mut body = vec!["r(X, Y)".to_string()];
            if let Some(t) = cond_text(c) {
                body.push(t);
            }
            format!("-r({}), +r({}) <- {}", args_text(d), args_text(i), body.join(", "))
        }
        Op::ApiIns(_) | Op::ApiDel(_) => String::new(),
    }
}

// ---- Coq printers
fn coq_arg(a: &Arg) -> String {
    match a {
        Arg::X => "AX".into(),
        Arg::Y => "AY".into(),
        Arg::C(v) => format!("(AC {})", coq_value(v)),
    }
}
fn coq_args(a: &[Arg]) -> String {
    coq_list(&a.iter().map(coq_arg).collect::<Vec<_>>())
}
fn coq_op(o: CmpOp) -> &'static str {
    match o {
        CmpOp::Lt => "OLt",
        CmpOp::Le => "OLe",
        CmpOp::Gt => "OGt",
        CmpOp::Ge => "OGe",
        CmpOp::Eq => "OEq",
        CmpOp::Ne => "ONe",
    }
}
fn coq_cond(c: &Cond) -> String {
    match c {
        Cond::True => "CTrue".into(),
        Cond::VC(y, o, k) => format!("(CVC {} {} {})", coq_bool(*y), coq_op(*o), coq_z(*k as i128)),
        Cond::VV(o) => format!("(CVV {})", coq_op(*o)),
    }
}

/// first unsigned integer found after `after` in `msg`
fn num_after(msg: &str, after: &str) -> Option<u64> {
    let i = msg.find(after)? + after.len();
    let digits: String = msg[i..].chars().skip_while(|c| !c.is_ascii_digit()).take_while(|c| c.is_ascii_digit()).collect();
    digits.parse().ok()
}

fn wire_to_value(w: &WireValue) -> Value {
    match w {
        WireValue::Null => Value::Null,
        WireValue::Int32(i) => Value::Int32(*i),
        WireValue::Int64(i) => Value::Int64(*i),
        WireValue::Float64(f) => Value::Float64(*f),
        WireValue::String(s) => Value::String(s.as_str().into()),
        WireValue::Bool(b) => Value::Bool(*b),
        WireValue::Timestamp(t) => Value::Timestamp(*t),
        other => panic!("unexpected wire value {:?}", other),
    }
}

struct Step {
    coq: String,
    desc: String,
}

fn run_history(rt: &tokio::runtime::Runtime, ops: &[Op], limit: usize) -> Vec<Step> {
    let dir = tempfile::tempdir().expect("tempdir");
    let mut cfg = Config::default();
    cfg.storage.data_dir = dir.path().to_path_buf();
    cfg.storage.performance.num_threads = 1;
    cfg.storage.performance.max_result_rows = limit;
    let handler = Handler::new(StorageEngine::new(cfg).expect("open"));
    let mut out = vec![];
    for op in ops {
        let (coq_op_s, desc) = match op {
            Op::ApiIns(ts) => {
                let r = handler.get_storage().insert_tuples_into(KG, "r", ts.clone());
                let res = match &r {
                    Ok((n, d)) => format!("(Some ({}, {}))", coq_n(*n as u128), coq_n(*d as u128)),
                    Err(_) => "None".into(),
                };
                (format!("C32ApiIns {} {}", coq_tuples(ts), res), format!("api insert {:?} => {:?}", ts.iter().map(tuple_text).collect::<Vec<_>>(), r.map_err(|e| e.to_string())))
            }
            Op::ApiDel(ts) => {
                let r = handler.get_storage().delete_tuples_from(KG, "r", ts.clone());
                let res = match &r {
                    Ok(n) => format!("(Some {})", coq_n(*n as u128)),
                    Err(_) => "None".into(),
                };
                (format!("C32ApiDel {} {}", coq_tuples(ts), res), format!("api delete {:?} => {:?}", ts.iter().map(tuple_text).collect::<Vec<_>>(), r.map_err(|e| e.to_string())))
            }
            _ => {
                let text = stmt_text(op);
                let reply = rt.block_on(handler.query_program(Some(KG.to_string()), text.clone()));
                let msgs: Vec<String> = match &reply {
                    Ok(qr) => qr.rows.iter().filter_map(|r| match r.values.first() { Some(WireValue::String(s)) => Some(s.clone()), _ => None }).collect(),
                    Err(e) => vec![format!("ERR {}", e)],
                };
                let msg = msgs.join(" | ");
                let rep = if reply.is_err() {
                    "SRErr".to_string()
                } else {
                    match op {
                        Op::Ins(_) => num_after(&msg, "Inserted").map(|n| format!("(SRIns {})", coq_n(n as u128))),
                        Op::Del(_) | Op::Bulk(_) => num_after(&msg, "Deleted").map(|n| format!("(SRDel {})", coq_n(n as u128))),
                        Op::CondDel(..) => num_after(&msg, "Conditional delete:").map(|n| format!("(SRCond {})", coq_n(n as u128))),
                        Op::Upd(..) => match (num_after(&msg, "Update:"), num_after(&msg, "deleted,")) {
                            (Some(d), Some(i)) => Some(format!("(SRUpd {} {})", coq_n(d as u128), coq_n(i as u128))),
                            _ => None,
                        },
                        _ => None,
                    }
                    .unwrap_or_else(|| "SRErr".to_string())
                };
                let q = match op {
                    Op::Ins(ts) => format!("(SIns {})", coq_tuples(ts)),
                    Op::Del(t) => format!("(SDel {})", coq_tuple(t)),
                    Op::Bulk(ts) => format!("(SBulk {})", coq_tuples(ts)),
                    Op::CondDel(h, c) => format!("(SCond {} {})", coq_args(h), coq_cond(c)),
                    Op::Upd(d, i, c) => format!("(SUpd {} {} {})", coq_args(d), coq_args(i), coq_cond(c)),
                    _ => unreachable!(),
                };
                (format!("C32Stmt {} {}", q, rep), format!("{}   => {}", text, msg))
            }
        };
        // observe
        let raw: Vec<Tuple> = handler.get_storage().get_rules_and_data(KG).map(|(_, d)| d.get("r").cloned().unwrap_or_default()).unwrap_or_default();
        let q: Vec<Tuple> = match rt.block_on(handler.query_program(Some(KG.to_string()), "?r(X, Y)".to_string())) {
            Ok(qr) => qr.rows.iter().map(|r| Tuple::new(r.values.iter().map(wire_to_value).collect())).collect(),
            Err(_) => vec![],
        };
        let mut shown: Vec<String> = raw.iter().map(tuple_text).collect();
        shown.sort();
        out.push(Step { coq: format!("(({}), ({}, {}))", coq_op_s, coq_tuples(&raw), coq_tuples(&q)), desc: format!("{}   -> {{{}}}", desc, shown.join(" ")) });
    }
    out
}

fn emit(sink: &mut Sink, rt: &tokio::runtime::Runtime, ops: &[Op], limit: usize, tag: &'static str) {
    if !sink.wants(sink.next_idx()) {
        sink.push(String::new(), serde_json::json!(null), &[tag], None);
        return;
    }
    let steps = run_history(rt, ops, limit);
    let coq = format!("C32Case {} {}", coq_n(limit as u128), coq_list(&steps.iter().map(|s| s.coq.clone()).collect::<Vec<_>>()));
    let mut nontrivial = false;
    for op in ops {
        let k = match op {
            Op::Ins(_) => "op:insert",
            Op::Del(_) => "op:delete",
            Op::Bulk(_) => "op:bulk-delete",
            Op::CondDel(..) => "op:conditional-delete",
            Op::Upd(..) => "op:update",
            Op::ApiIns(_) => "op:api-insert",
            Op::ApiDel(_) => "op:api-delete",
        };
        sink.tally(k);
        if matches!(op, Op::CondDel(..) | Op::Upd(..)) {
            nontrivial = true;
        }
    }
    sink.tally(&format!("limit:{}", limit));
    sink.tally(&format!("len:{}", ops.len() / 4 * 4));
    // non-trivial = the history contains a conditional delete or an update (the statements whose effect is
    // computed by a query) — and, for every history, at least one duplicate insert or absent delete is likely
    let key = if nontrivial { Some(format!("{} {:?}", limit, ops)) } else { None };
    sink.push(coq, serde_json::json!({"max_result_rows": limit, "steps": steps.iter().map(|s| s.desc.clone()).collect::<Vec<_>>()}), &[tag], key);
}

fn ip(a: i64, b: i64) -> Tuple {
    Tuple::new(vec![Value::Int64(a), Value::Int64(b)])
}

fn main() {
    let args = parse_args();
    let mut rng = Rng::new(args.seed);
    let rt = tokio::runtime::Builder::new_multi_thread().worker_threads(2).enable_all().build().expect("tokio");
    let mut sink = Sink::new(&args, "From IL Require Import Checks.C32.", "c32case", "c32_check", 20);
    let xy = vec![Arg::X, Arg::Y];
    let yx = vec![Arg::Y, Arg::X];
    // ---- corpus
    // swap update on a symmetric pair: with per-binding interleaving one tuple was lost
    emit(&mut sink, &rt, &[Op::Ins(vec![ip(1, 2), ip(2, 1)]), Op::Upd(xy.clone(), yx.clone(), Cond::True)], 100000, "corpus");
    emit(&mut sink, &rt, &[Op::Ins(vec![ip(1, 2), ip(2, 3), ip(3, 1)]), Op::Upd(xy.clone(), yx.clone(), Cond::True), Op::Upd(xy.clone(), vec![Arg::X, Arg::C(Value::Int64(0))], Cond::VC(false, CmpOp::Gt, 1))], 100000, "corpus");
    // in-batch duplicates, duplicate insert, absent delete, bulk delete with repeats
    emit(&mut sink, &rt, &[Op::Ins(vec![ip(1, 1), ip(1, 1), ip(2, 2)]), Op::Ins(vec![ip(1, 1), ip(3, 3)]), Op::Del(ip(9, 9)), Op::Bulk(vec![ip(1, 1), ip(1, 1), ip(7, 7)]), Op::ApiIns(vec![ip(2, 2), ip(4, 4), ip(4, 4)]), Op::ApiDel(vec![ip(4, 4), ip(4, 4), ip(5, 5)])], 100000, "corpus");
    // conditional deletes: constant in head, repeated variable, comparison of both columns
    emit(&mut sink, &rt, &[Op::Ins(vec![ip(1, 1), ip(1, 2), ip(2, 2), ip(3, 0)]), Op::CondDel(vec![Arg::X, Arg::X], Cond::True), Op::CondDel(vec![Arg::X, Arg::C(Value::Int64(2))], Cond::VC(false, CmpOp::Ge, 1)), Op::CondDel(xy.clone(), Cond::VV(CmpOp::Gt))], 100000, "corpus");
    // result-row limit below the number of matches (known finding class 1)
    emit(&mut sink, &rt, &[Op::Ins(vec![ip(1, 1), ip(2, 2), ip(3, 3), ip(4, 4)]), Op::CondDel(xy.clone(), Cond::True)], 2, "corpus");
    emit(&mut sink, &rt, &[Op::Ins(vec![ip(1, 1), ip(2, 2), ip(3, 3)]), Op::Upd(xy.clone(), vec![Arg::X, Arg::C(Value::Int64(9))], Cond::True)], 1, "corpus");

    // ---- random histories
    for _ in 0..args.n {
        let limit = *rng.pick(&[100000usize, 100000, 100000, 0, 3, 1]);
        let strs = rng.chance(1, 5); // second column holds strings
        let dom = rng.range(2, 4);
        let malformed = rng.chance(1, 10);
        let len = rng.range(2, 12);
        let yval = |rng: &mut Rng| -> Value {
            if strs {
                Value::String(["a", "b", "c"][rng.below(3) as usize].into())
            } else {
                Value::Int64(rng.range(0, dom))
            }
        };
        let tup = |rng: &mut Rng| -> Tuple { Tuple::new(vec![Value::Int64(rng.range(0, dom)), yval(rng)]) };
        let gen_cond = |rng: &mut Rng, hasx: bool, hasy: bool| -> Cond {
            let op = *rng.pick(&[CmpOp::Lt, CmpOp::Le, CmpOp::Gt, CmpOp::Ge, CmpOp::Eq, CmpOp::Ne]);
            match rng.below(4) {
                0 => Cond::True,
                1 if hasx && hasy && !strs => Cond::VV(op),
                2 if hasy && !strs => Cond::VC(true, op, rng.range(0, dom)),
                _ if hasx => Cond::VC(false, op, rng.range(0, dom)),
                _ => Cond::True,
            }
        };
        let mut ops = vec![];
        for _ in 0..len {
            match rng.below(20) {
                0..=5 => {
                    let n = rng.range(1, 4);
                    ops.push(Op::Ins((0..n).map(|_| tup(&mut rng)).collect()));
                }
                6 | 7 => ops.push(Op::Del(tup(&mut rng))),
                8 | 9 => {
                    let n = rng.range(1, 3);
                    ops.push(Op::Bulk((0..n).map(|_| tup(&mut rng)).collect()));
                }
                10..=13 => {
                    let head: Vec<Arg> = match rng.below(6) {
                        0 | 1 | 2 => vec![Arg::X, Arg::Y],
                        3 => vec![Arg::X, Arg::C(yval(&mut rng))],
                        4 => vec![Arg::C(Value::Int64(rng.range(0, dom))), Arg::Y],
                        _ => {
                            if strs {
                                vec![Arg::Y, Arg::X]
                            } else {
                                vec![Arg::X, Arg::X]
                            }
                        }
                    };
                    let hasx = head.contains(&Arg::X);
                    let hasy = head.contains(&Arg::Y);
                    // head (Y, X): first column is named Y, so conditions on "X" talk about column 2
                    let swapped = head == vec![Arg::Y, Arg::X];
                    let mut c = if swapped { Cond::True } else { gen_cond(&mut rng, hasx, hasy) };
                    if malformed && rng.chance(1, 3) && !hasy {
                        c = Cond::VC(true, CmpOp::Gt, 0); // unbound variable: unsafe rule, must be rejected
                    }
                    ops.push(Op::CondDel(head, c));
                }
                14..=17 => {
                    let tm = |rng: &mut Rng| -> Vec<Arg> {
                        match rng.below(6) {
                            0 | 1 => vec![Arg::X, Arg::Y],
                            2 => {
                                if strs {
                                    vec![Arg::X, Arg::Y]
                                } else {
                                    vec![Arg::Y, Arg::X]
                                }
                            }
                            3 => vec![Arg::X, Arg::C(yval(rng))],
                            4 => vec![Arg::C(Value::Int64(rng.range(0, dom))), Arg::Y],
                            _ => {
                                if strs {
                                    vec![Arg::X, Arg::Y]
                                } else {
                                    vec![Arg::X, Arg::X]
                                }
                            }
                        }
                    };
                    let d = tm(&mut rng);
                    let i = tm(&mut rng);
                    let c = gen_cond(&mut rng, true, true);
                    ops.push(Op::Upd(d, i, c));
                }
                18 => {
                    let n = rng.range(0, 3);
                    ops.push(Op::ApiIns((0..n).map(|_| tup(&mut rng)).collect()));
                }
                _ => {
                    let n = rng.range(0, 3);
                    ops.push(Op::ApiDel((0..n).map(|_| tup(&mut rng)).collect()));
                }
            }
        }
        emit(&mut sink, &rt, &ops, limit, if malformed { "random-malformed" } else { "random" });
    }
    sink.finish();
}
