//! C20 — reads observe a committed prefix.
//! Drives real threads (StorageEngine writers with multi-tuple batches, rule registrations and
//! snapshot readers on one knowledge graph) through enumerated / random interleavings of the
//! sched_point hooks, and emits every executed schedule as a case for Checks/C20.v.
#[path = "../conc_ctl.rs"]
mod conc_ctl;
use conc_ctl::*;
use inputlayer::statement::{RuleDef, SerializableBodyPred, SerializableRule, SerializableTerm};
use inputlayer::storage::StorageError;
use inputlayer::verif_hooks;
use inputlayer::{Config, StorageEngine, Tuple, Value};
use std::sync::atomic::{AtomicUsize, Ordering};
use std::sync::{Arc, Mutex};
use std::time::Duration;
use vharness::*;

#[derive(Clone, Debug)]
enum Op {
    Ins { id: u64, rel: u64, ts: Vec<u64> },
    Del { id: u64, rel: u64, ts: Vec<u64> },
    Rule { id: u64, rel: u64, c: u64 },
    RemClause { id: u64, rel: u64, idx: usize },
    DropRule { id: u64, rel: u64 },
    ClearRule { id: u64, rel: u64 },
    Replace { id: u64, rel: u64, idx: usize, c: u64 },
    Read { id: u64 },
}
impl Op {
    fn id(&self) -> u64 {
        match self {
            Op::Ins { id, .. }
            | Op::Del { id, .. }
            | Op::Rule { id, .. }
            | Op::RemClause { id, .. }
            | Op::DropRule { id, .. }
            | Op::ClearRule { id, .. }
            | Op::Replace { id, .. }
            | Op::Read { id } => *id,
        }
    }
    fn coq(&self) -> String {
        let l = |ts: &Vec<u64>| coq_list(&ts.iter().map(|t| coq_n(*t as u128)).collect::<Vec<_>>());
        match self {
            Op::Ins { id, rel, ts } => format!("(SIns {} {} {})", coq_n(*id as u128), coq_n(*rel as u128), l(ts)),
            Op::Del { id, rel, ts } => format!("(SDel {} {} {})", coq_n(*id as u128), coq_n(*rel as u128), l(ts)),
            Op::Rule { id, rel, c } => format!("(SRule {} {} {})", coq_n(*id as u128), coq_n(*rel as u128), coq_n(*c as u128)),
            Op::RemClause { id, rel, idx } => format!("(SRemClause {} {} {})", coq_n(*id as u128), coq_n(*rel as u128), coq_nat(*idx)),
            Op::DropRule { id, rel } => format!("(SDropRule {} {})", coq_n(*id as u128), coq_n(*rel as u128)),
            Op::ClearRule { id, rel } => format!("(SClearRule {} {})", coq_n(*id as u128), coq_n(*rel as u128)),
            Op::Replace { id, rel, idx, c } => {
                format!("(SReplace {} {} {} {})", coq_n(*id as u128), coq_n(*rel as u128), coq_nat(*idx), coq_n(*c as u128))
            }
            Op::Read { id } => format!("(SRead {})", coq_n(*id as u128)),
        }
    }
    fn text(&self) -> String {
        match self {
            Op::Ins { id, rel, ts } => format!("#{id} insert r{rel} {ts:?}"),
            Op::Del { id, rel, ts } => format!("#{id} delete r{rel} {ts:?}"),
            Op::Rule { id, rel, c } => format!("#{id} register-clause r{rel} <- b{rel}_{c}"),
            Op::RemClause { id, rel, idx } => format!("#{id} remove-clause r{rel} index {idx}"),
            Op::DropRule { id, rel } => format!("#{id} drop-rule r{rel}"),
            Op::ClearRule { id, rel } => format!("#{id} clear-rule r{rel}"),
            Op::Replace { id, rel, idx, c } => format!("#{id} replace-clause r{rel} index {idx} with b{rel}_{c}"),
            Op::Read { id } => format!("#{id} read"),
        }
    }
    fn steps(&self) -> usize {
        match self {
            Op::Ins { .. } => 3,
            Op::Del { .. } | Op::Read { .. } => 2,
            _ => 1,
        }
    }
    fn is_catalog(&self) -> bool {
        matches!(self, Op::Rule { .. } | Op::RemClause { .. } | Op::DropRule { .. } | Op::ClearRule { .. } | Op::Replace { .. })
    }
}

#[derive(Clone, Debug)]
struct View {
    facts: Vec<(u64, u64)>,
    /// (rule head, clause) of every clause in the snapshot, sorted
    rules: Vec<(u64, u64)>,
    /// for the initial view only: the catalog in registration order (clause order matters for
    /// index-based operations and cannot be read off a snapshot)
    cat: Option<Vec<(u64, Vec<u64>)>>,
}
impl View {
    fn coq(&self) -> String {
        let f: Vec<String> = self.facts.iter().map(|(r, t)| format!("({}, {})", coq_n(*r as u128), coq_n(*t as u128))).collect();
        if let Some(cat) = &self.cat {
            let r: Vec<String> = cat
                .iter()
                .map(|(h, cs)| format!("({}, {})", coq_n(*h as u128), coq_list(&cs.iter().map(|c| coq_n(*c as u128)).collect::<Vec<_>>())))
                .collect();
            return format!("(mkView {} {})", coq_list(&f), coq_list(&r));
        }
        // grouped by head, as a catalog
        let mut heads: Vec<u64> = self.rules.iter().map(|(h, _)| *h).collect();
        heads.dedup();
        let r: Vec<String> = heads
            .iter()
            .map(|h| {
                let cs: Vec<String> = self.rules.iter().filter(|(x, _)| x == h).map(|(_, c)| coq_n(*c as u128)).collect();
                format!("({}, {})", coq_n(*h as u128), coq_list(&cs))
            })
            .collect();
        format!("(mkView {} {})", coq_list(&f), coq_list(&r))
    }
}

#[derive(Clone, Debug)]
enum Res {
    Ins(u64, u64),
    Del(u64),
    Rule,
    Rem(bool),
    ErrRule,
    ErrView,
    View(View),
    Unexpected(String),
}
impl Res {
    fn coq(&self) -> String {
        match self {
            Res::Ins(a, b) => format!("(RIns {} {})", coq_n(*a as u128), coq_n(*b as u128)),
            Res::Del(a) => format!("(RDel {})", coq_n(*a as u128)),
            Res::Rule => "RRule".into(),
            Res::Rem(b) => format!("(RRem {})", coq_bool(*b)),
            Res::ErrRule => "RErrRule".into(),
            Res::ErrView => "RErrView".into(),
            Res::View(v) => format!("(RView {})", v.coq()),
            Res::Unexpected(_) => "(RDel 4294967295%N)".into(),
        }
    }
    fn text(&self) -> String {
        match self {
            Res::View(v) => format!("view facts={:?} rules={:?}", v.facts, v.rules),
            o => format!("{o:?}"),
        }
    }
}

const KG: &str = "k";
fn rel_name(r: u64) -> String {
    format!("r{r}")
}
fn rel_id(name: &str) -> Option<u64> {
    name.strip_prefix('r').and_then(|s| s.parse().ok())
}
fn tuple_of(t: u64) -> Tuple {
    Tuple::new(vec![Value::Int64(t as i64), Value::String(format!("t{t}").into())])
}
fn tuple_id(t: &Tuple) -> u64 {
    match t.get(0) {
        Some(Value::Int64(i)) => *i as u64,
        _ => u64::MAX,
    }
}
fn clause(rel: u64, c: u64) -> SerializableRule {
    let v = |s: &str| SerializableTerm::Variable(s.to_string());
    SerializableRule {
        head_relation: rel_name(rel),
        head_args: vec![v("X"), v("Y")],
        body: vec![SerializableBodyPred::Atom { relation: format!("b{rel}_{c}"), args: vec![v("X"), v("Y")], negated: false }],
    }
}
fn rule_def(rel: u64, c: u64) -> RuleDef {
    RuleDef { name: rel_name(rel), rule: clause(rel, c) }
}
fn clause_id(r: &inputlayer::ast::Rule) -> Option<(u64, u64)> {
    let h = rel_id(&r.head.relation)?;
    for p in &r.body {
        if let inputlayer::ast::BodyPredicate::Positive(a) = p {
            if let Some(rest) = a.relation.strip_prefix('b') {
                if let Some((_, c)) = rest.split_once('_') {
                    return Some((h, c.parse().ok()?));
                }
            }
        }
    }
    None
}
fn rule_err(e: StorageError) -> Res {
    let m = e.to_string();
    if m.contains("does not exist") || m.contains("out of bounds") {
        Res::ErrRule
    } else {
        Res::Unexpected(m)
    }
}
fn view_of(snap: &inputlayer::storage_engine::KnowledgeGraphSnapshot) -> View {
    let mut facts = vec![];
    for (name, ts) in snap.input_tuples.iter() {
        if let Some(r) = rel_id(name) {
            for t in ts {
                facts.push((r, tuple_id(t)));
            }
        }
    }
    facts.sort();
    let mut rules: Vec<(u64, u64)> = snap.rules.iter().filter_map(clause_id).collect();
    rules.sort();
    View { facts, rules, cat: None }
}

fn parks(label: &str) -> bool {
    matches!(
        label,
        "start" | "op" | "se:insert:after_view_check" | "se:insert:before_kg_lock" | "se:delete:before_kg_lock" | "read:loaded"
    )
}
fn label_code(l: &str) -> u64 {
    match l {
        "op" => 0,
        "se:insert:after_view_check" => 1,
        "se:insert:before_kg_lock" => 2,
        "se:delete:before_kg_lock" => 3,
        "read:loaded" => 4,
        "done" => 9,
        _ => 99,
    }
}

struct Config20 {
    name: String,
    v0: Vec<(u64, Vec<u64>)>, // initial batches (relation, tuples), inserted sequentially before the threads start
    /// clauses registered sequentially before the threads start (head, clause), in this order
    rules0: Vec<(u64, u64)>,
    progs: Vec<Vec<Op>>,
    exhaustive: bool,
    budget: usize,
    seed: u64,
}

struct Exec {
    outcome: Outcome,
    results: Vec<Vec<(u64, Res)>>,
    v0: View,
    fin: View,
}

fn run_one(cfg: &Config20, choose: &mut dyn FnMut(usize, &[usize]) -> usize) -> Exec {
    let dir = scratch_dir();
    let mut config = Config::default();
    config.storage.data_dir = dir.path().to_path_buf();
    config.storage.performance.num_threads = 1;
    let eng = Arc::new(StorageEngine::new(config).expect("engine"));
    eng.create_knowledge_graph(KG).expect("create kg");
    for (r, ts) in &cfg.v0 {
        eng.insert_tuples_into(KG, &rel_name(*r), ts.iter().map(|t| tuple_of(*t)).collect()).expect("setup insert");
    }
    let mut cat0: Vec<(u64, Vec<u64>)> = vec![];
    for (h, c) in &cfg.rules0 {
        eng.register_rule_in(KG, &rule_def(*h, *c)).expect("setup rule");
        match cat0.iter_mut().find(|(x, _)| x == h) {
            Some((_, cs)) => {
                if !cs.contains(c) {
                    cs.push(*c)
                }
            }
            None => cat0.push((*h, vec![*c])),
        }
    }
    let mut v0 = view_of(&eng.get_snapshot_for(KG).expect("snap"));
    v0.cat = Some(cat0);
    let n = cfg.progs.len();
    let results: Vec<Arc<Mutex<Vec<(u64, Res)>>>> = (0..n).map(|_| Arc::new(Mutex::new(vec![]))).collect();
    let mut bodies: Vec<Body> = vec![];
    for (t, prog) in cfg.progs.iter().enumerate() {
        let prog = prog.clone();
        let eng = Arc::clone(&eng);
        let out = Arc::clone(&results[t]);
        bodies.push(Box::new(move || {
            for (i, op) in prog.iter().enumerate() {
                if i > 0 {
                    verif_hooks::sched_point("op");
                }
                let r = match op {
                    Op::Ins { rel, ts, .. } => {
                        match eng.insert_tuples_into(KG, &rel_name(*rel), ts.iter().map(|x| tuple_of(*x)).collect()) {
                            Ok((a, b)) => Res::Ins(a as u64, b as u64),
                            Err(StorageError::Other(m)) if m.contains("derived relation") => Res::ErrView,
                            Err(e) => Res::Unexpected(e.to_string()),
                        }
                    }
                    Op::Del { rel, ts, .. } => {
                        match eng.delete_tuples_from(KG, &rel_name(*rel), ts.iter().map(|x| tuple_of(*x)).collect()) {
                            Ok(a) => Res::Del(a as u64),
                            Err(e) => Res::Unexpected(e.to_string()),
                        }
                    }
                    Op::Rule { rel, c, .. } => match eng.register_rule_in(KG, &rule_def(*rel, *c)) {
                        Ok(_) => Res::Rule,
                        Err(e) => Res::Unexpected(e.to_string()),
                    },
                    Op::RemClause { rel, idx, .. } => match eng.remove_rule_clause_in(KG, &rel_name(*rel), *idx) {
                        Ok(b) => Res::Rem(b),
                        Err(e) => rule_err(e),
                    },
                    Op::DropRule { rel, .. } => match eng.drop_rule_in(KG, &rel_name(*rel)) {
                        Ok(()) => Res::Rule,
                        Err(e) => rule_err(e),
                    },
                    Op::ClearRule { rel, .. } => match eng.clear_rule_in(KG, &rel_name(*rel)) {
                        Ok(()) => Res::Rule,
                        Err(e) => rule_err(e),
                    },
                    Op::Replace { rel, idx, c, .. } => match eng.with_kg_mut(KG, |k| k.replace_rule(&rel_name(*rel), *idx, clause(*rel, *c))) {
                        Ok(()) => Res::Rule,
                        Err(e) => rule_err(e),
                    },
                    Op::Read { .. } => match eng.get_snapshot_for(KG) {
                        Ok(snap) => {
                            verif_hooks::sched_point("read:loaded");
                            Res::View(view_of(&snap))
                        }
                        Err(e) => Res::Unexpected(e.to_string()),
                    },
                };
                out.lock().unwrap().push((op.id(), r));
            }
        }));
    }
    let enabled = |v: &[ThreadView]| vec![true; v.len()];
    let mut after = |_: usize, _: &[Ev]| {};
    let outcome = run_execution(bodies, parks, None, &enabled, choose, &mut after, Duration::from_secs(20));
    let fin = view_of(&eng.get_snapshot_for(KG).expect("snap"));
    let results: Vec<Vec<(u64, Res)>> = results.iter().map(|r| r.lock().unwrap().clone()).collect();
    Exec { outcome, results, v0, fin }
}

/// The apply order including rule registrations: walk the event log; `kg:apply_*` observations
/// mark data operations; a `kg:publish` observation of a thread whose current op is a rule
/// registration marks that registration.
fn apply_order(cfg: &Config20, ex: &Exec) -> Vec<u64> {
    // per thread: op index advances at each "op" park
    let n = cfg.progs.len();
    let mut opi = vec![0usize; n];
    let mut order = vec![];
    let mut started = vec![false; n];
    for ev in &ex.outcome.log {
        match ev {
            Ev::Park(t, "op") => opi[*t] += 1,
            Ev::Park(t, "start") => started[*t] = true,
            Ev::Obs(t, l) => {
                if let Some(op) = cfg.progs[*t].get(opi[*t]) {
                    match (op, *l) {
                        (Op::Ins { id, .. }, "kg:apply_insert") | (Op::Del { id, .. }, "kg:apply_delete") => order.push(*id),
                        (o, "kg:publish") if o.is_catalog() => order.push(o.id()),
                        _ => {}
                    }
                }
            }
            _ => {}
        }
    }
    order
}

fn interleavings(progs: &[Vec<Op>]) -> f64 {
    // multinomial of the per-thread step counts (each op boundary is folded into the op's steps)
    let lens: Vec<usize> = progs.iter().map(|p| p.iter().map(Op::steps).sum::<usize>()).collect();
    let mut total = 0usize;
    let mut r = 1f64;
    for l in lens {
        for k in 1..=l {
            total += 1;
            r = r * total as f64 / k as f64;
        }
    }
    r
}

fn gen_config(rng: &mut Rng, idx: usize, per: usize) -> Config20 {
    let nthreads = if rng.chance(2, 3) { 2 } else { 3 };
    let mut next_id = 1u64;
    let mut v0 = vec![];
    if rng.chance(2, 3) {
        let r = rng.below(2);
        let k = rng.range(1, 3) as usize;
        let ts: Vec<u64> = (0..k).map(|_| rng.below(8)).collect();
        v0.push((r, ts));
    }
    let mut progs = vec![];
    let mut has_read = false;
    for t in 0..nthreads {
        let nops = rng.range(1, if nthreads == 2 { 3 } else { 2 }) as usize;
        let mut p = vec![];
        for _ in 0..nops {
            let id = next_id;
            next_id += 1;
            let rel = rng.below(2);
            let k = rng.range(1, 3) as usize;
            let ts: Vec<u64> = (0..k).map(|_| rng.below(8)).collect();
            let force_read = t == nthreads - 1 && !has_read;
            let c = if force_read { 9 } else { rng.below(10) };
            let op = match c {
                0..=3 => Op::Ins { id, rel, ts },
                4..=5 => Op::Del { id, rel, ts },
                6 => match rng.below(6) {
                    0..=1 => Op::Rule { id, rel, c: rng.range(1, 3) as u64 },
                    2..=3 => Op::RemClause { id, rel, idx: rng.below(3) as usize },
                    4 => Op::DropRule { id, rel },
                    _ => Op::ClearRule { id, rel },
                },
                _ => {
                    has_read = true;
                    Op::Read { id }
                }
            };
            p.push(op);
        }
        progs.push(p);
    }
    let exhaustive = interleavings(&progs) <= per as f64;
    let nr = rng.below(4);
    let rules0: Vec<(u64, u64)> = (0..nr).map(|_| (rng.below(2), rng.range(1, 3) as u64)).collect();
    Config20 { name: format!("random-{idx}"), v0, rules0, progs, exhaustive, budget: per, seed: rng.next() }
}

/// one client: a history of rule-catalog operations (multi-clause rules, removal of first / middle /
/// last clauses, out-of-range indices, drop, clear, replace) with a read after most of them
fn gen_seq_rules(rng: &mut Rng, idx: usize) -> Config20 {
    let n = rng.range(5, 12);
    let mut p = vec![];
    let mut id = 1u64;
    let nr = rng.below(5);
    let rules0: Vec<(u64, u64)> = (0..nr).map(|_| (rng.below(2), rng.range(1, 4) as u64)).collect();
    for _ in 0..n {
        let rel = rng.below(2);
        let op = match rng.below(12) {
            0..=3 => Op::Rule { id, rel, c: rng.range(1, 4) as u64 },
            4..=7 => Op::RemClause { id, rel, idx: rng.below(4) as usize },
            8 => Op::DropRule { id, rel },
            9 => Op::ClearRule { id, rel },
            10 => Op::Replace { id, rel, idx: rng.below(3) as usize, c: rng.range(1, 4) as u64 },
            _ => Op::Ins { id, rel, ts: vec![rng.below(4)] },
        };
        id += 1;
        p.push(op);
        if rng.chance(3, 4) {
            p.push(Op::Read { id });
            id += 1;
        }
    }
    p.push(Op::Read { id });
    Config20 { name: format!("seq-rules-{idx}"), v0: vec![], rules0, progs: vec![p], exhaustive: true, budget: 1, seed: 0 }
}

fn corpus() -> Vec<Config20> {
    let ins = |id, rel, ts: &[u64]| Op::Ins { id, rel, ts: ts.to_vec() };
    let del = |id, rel, ts: &[u64]| Op::Del { id, rel, ts: ts.to_vec() };
    let c = |name: &str, v0: Vec<(u64, Vec<u64>)>, progs: Vec<Vec<Op>>| Config20 {
        name: name.to_string(),
        v0,
        rules0: vec![],
        progs,
        exhaustive: true,
        budget: 1000,
        seed: 0,
    };
    vec![
        c("writer-2-batches-vs-reader", vec![], vec![vec![ins(1, 0, &[10, 11, 12]), ins(2, 0, &[13, 14])], vec![Op::Read { id: 3 }, Op::Read { id: 4 }]]),
        c("insert-delete-reader", vec![(0, vec![1, 5])], vec![vec![ins(1, 0, &[1, 2])], vec![del(2, 0, &[1, 5])], vec![Op::Read { id: 3 }]]),
        c("rule-vs-insert-into-view", vec![], vec![vec![Op::Rule { id: 1, rel: 0, c: 1 }], vec![ins(2, 0, &[1, 2])], vec![Op::Read { id: 3 }]]),
        // one client: three clauses, remove the middle one, the (then) last one, the last remaining one; read after each
        c(
            "clause-removal-sequential",
            vec![],
            vec![vec![
                Op::Rule { id: 1, rel: 0, c: 1 },
                Op::Rule { id: 2, rel: 0, c: 2 },
                Op::Rule { id: 3, rel: 0, c: 3 },
                Op::Rule { id: 4, rel: 0, c: 2 },
                Op::Read { id: 5 },
                Op::RemClause { id: 6, rel: 0, idx: 1 },
                Op::Read { id: 7 },
                Op::RemClause { id: 8, rel: 0, idx: 1 },
                Op::Read { id: 9 },
                Op::RemClause { id: 10, rel: 0, idx: 3 },
                Op::RemClause { id: 11, rel: 0, idx: 0 },
                Op::Read { id: 12 },
                ins(13, 0, &[1]),
                Op::RemClause { id: 14, rel: 0, idx: 0 },
                Op::Read { id: 15 },
            ]],
        ),
        // a client removes the first of two clauses and reads at once, another client reads around it
        c(
            "clause-removal-vs-reader",
            vec![],
            vec![
                vec![Op::Rule { id: 1, rel: 0, c: 1 }, Op::Rule { id: 2, rel: 0, c: 2 }, Op::RemClause { id: 3, rel: 0, idx: 0 }, Op::Read { id: 4 }],
                vec![Op::Read { id: 5 }, Op::Read { id: 6 }],
            ],
        ),
        // replace, clear (the rule stays registered: inserts are still rejected), drop
        c(
            "replace-clear-drop",
            vec![],
            vec![
                vec![
                    Op::Rule { id: 1, rel: 1, c: 1 },
                    Op::Rule { id: 2, rel: 1, c: 2 },
                    Op::Replace { id: 3, rel: 1, idx: 0, c: 3 },
                    Op::Read { id: 4 },
                    Op::ClearRule { id: 5, rel: 1 },
                    ins(6, 1, &[1]),
                    Op::Read { id: 7 },
                    Op::DropRule { id: 8, rel: 1 },
                    Op::DropRule { id: 9, rel: 1 },
                    ins(10, 1, &[2]),
                    Op::Read { id: 11 },
                ],
                vec![Op::Read { id: 12 }],
            ],
        ),
        c("two-writers-read-own", vec![], vec![vec![ins(1, 0, &[1, 2]), Op::Read { id: 2 }], vec![ins(3, 0, &[2, 3]), Op::Read { id: 4 }]]),
        c("delete-batch-vs-reader", vec![(0, vec![1, 2, 3, 4])], vec![vec![del(1, 0, &[1, 2, 3]), ins(2, 1, &[7, 7, 8])], vec![Op::Read { id: 3 }, Op::Read { id: 4 }]]),
    ]
}

struct CaseOut {
    coq: String,
    desc: serde_json::Value,
    tags: Vec<String>,
    key: Option<String>,
    infeasible: bool,
}

fn emit(cfg: &Config20, ex: &Exec) -> CaseOut {
    let order = apply_order(cfg, ex);
    let progs_coq: Vec<String> = cfg.progs.iter().map(|p| coq_list(&p.iter().map(Op::coq).collect::<Vec<_>>())).collect();
    let sched_coq: Vec<String> = ex
        .outcome
        .schedule
        .iter()
        .zip(ex.outcome.arrived.iter())
        .map(|(t, l)| format!("({}, {})", coq_nat(*t), coq_n(label_code(l) as u128)))
        .collect();
    let res_coq: Vec<String> = ex
        .results
        .iter()
        .map(|rs| coq_list(&rs.iter().map(|(id, r)| format!("({}, {})", coq_n(*id as u128), r.coq())).collect::<Vec<_>>()))
        .collect();
    let coq = format!(
        "C20Case {} {} {} {} {} {}",
        ex.v0.coq(),
        coq_list(&progs_coq),
        coq_list(&sched_coq),
        coq_list(&res_coq),
        coq_list(&order.iter().map(|i| coq_n(*i as u128)).collect::<Vec<_>>()),
        ex.fin.coq()
    );
    let sched_txt: Vec<String> = ex.outcome.schedule.iter().zip(ex.outcome.arrived.iter()).map(|(t, l)| format!("T{t}->{l}")).collect();
    let switches = ex.outcome.schedule.windows(2).filter(|w| w[0] != w[1]).count();
    let unexpected: Vec<String> = ex
        .results
        .iter()
        .flatten()
        .filter_map(|(id, r)| if let Res::Unexpected(m) = r { Some(format!("#{id}: {m}")) } else { None })
        .collect();
    let desc = serde_json::json!({
        "config": cfg.name,
        "initial": format!("{:?}", cfg.v0),
        "threads": cfg.progs.iter().map(|p| p.iter().map(Op::text).collect::<Vec<_>>()).collect::<Vec<_>>(),
        "schedule": sched_txt,
        "results": ex.results.iter().map(|rs| rs.iter().map(|(id, r)| format!("#{id}: {}", r.text())).collect::<Vec<_>>()).collect::<Vec<_>>(),
        "apply_order": order,
        "final": format!("facts={:?} rules={:?}", ex.fin.facts, ex.fin.rules),
        "unexpected_errors": unexpected,
        "panics": format!("{:?}", ex.outcome.panics),
    });
    let mut tags = vec![format!("threads:{}", cfg.progs.len()), if cfg.exhaustive { "enumerated".to_string() } else { "sampled".to_string() }];
    let mid_read = ex.results.iter().flatten().any(|(_, r)| match r {
        Res::View(v) => (v.facts != ex.v0.facts || v.rules != ex.v0.rules) && (v.facts != ex.fin.facts || v.rules != ex.fin.rules),
        _ => false,
    });
    if mid_read {
        tags.push("read-strictly-between".into());
    }
    if ex.results.iter().flatten().any(|(_, r)| matches!(r, Res::ErrView)) {
        tags.push("insert-into-view-rejected".into());
    }
    if !unexpected.is_empty() || !ex.outcome.panics.is_empty() {
        tags.push("unexpected-error".into());
    }
    let key = if switches >= 2 { Some(format!("{:?}|{:?}|{}", cfg.v0, cfg.progs, sched_txt.join(","))) } else { None };
    CaseOut { coq, desc, tags, key, infeasible: ex.outcome.infeasible }
}

fn run_config(cfg: &Config20) -> Vec<CaseOut> {
    // "start" is the first op boundary: the first pick of a thread runs its first op's first section
    let mut outs = vec![];
    if cfg.exhaustive {
        let (execs, _complete) = enumerate_cfg(cfg);
        for ex in execs {
            outs.push(emit(cfg, &ex));
        }
    } else {
        let mut rng = Rng::new(cfg.seed);
        for _ in 0..cfg.budget {
            let mut ch = |_: usize, en: &[usize]| en[rng.below(en.len() as u64) as usize];
            let ex = run_one(cfg, &mut ch);
            outs.push(emit(cfg, &ex));
        }
    }
    outs
}

fn enumerate_cfg(cfg: &Config20) -> (Vec<Exec>, bool) {
    let mut execs: Vec<Exec> = vec![];
    let mut prefix: Vec<usize> = vec![];
    let mut complete = false;
    while execs.len() < cfg.budget {
        let ex = {
            let mut ch = prefix_chooser(&prefix);
            run_one(cfg, &mut ch)
        };
        let o = &ex.outcome;
        let mut next: Option<Vec<usize>> = None;
        for i in (0..o.schedule.len()).rev() {
            let cur = o.schedule[i];
            if let Some(nx) = o.enabled_sets[i].iter().copied().filter(|x| *x > cur).min() {
                let mut p = o.schedule[..i].to_vec();
                p.push(nx);
                next = Some(p);
                break;
            }
        }
        execs.push(ex);
        match next {
            Some(p) => prefix = p,
            None => {
                complete = true;
                break;
            }
        }
    }
    (execs, complete)
}

fn main() {
    let args = parse_args();
    let mut rng = Rng::new(args.seed);
    let mut sink = Sink::new(&args, "From IL Require Import Checks.C20.", "c20case", "c20_check", 40);
    let mut configs = corpus();
    let corpus_n = configs.len();
    let per = 30usize;
    // corpus enumerations cost about 1150 executions; the rest of the budget goes to random configurations
    // and to sequential rule-catalog histories
    let nrandom = (args.n.saturating_sub(1150) / per).max(4);
    for i in 0..nrandom {
        configs.push(gen_config(&mut rng, i, per));
    }
    let nseq = (args.n / 12).max(40);
    for i in 0..nseq {
        configs.push(gen_seq_rules(&mut rng, i));
    }
    let configs = Arc::new(configs);
    let next = Arc::new(AtomicUsize::new(0));
    let results: Arc<Mutex<Vec<Option<Vec<CaseOut>>>>> = Arc::new(Mutex::new((0..configs.len()).map(|_| None).collect()));
    let workers = std::thread::available_parallelism().map(|x| x.get()).unwrap_or(4).min(8);
    let mut hs = vec![];
    for _ in 0..workers {
        let configs = Arc::clone(&configs);
        let next = Arc::clone(&next);
        let results = Arc::clone(&results);
        hs.push(std::thread::spawn(move || loop {
            let i = next.fetch_add(1, Ordering::SeqCst);
            if i >= configs.len() {
                break;
            }
            let outs = run_config(&configs[i]);
            results.lock().unwrap()[i] = Some(outs);
        }));
    }
    for h in hs {
        h.join().expect("runner");
    }
    let mut results = results.lock().unwrap();
    for (i, slot) in results.iter_mut().enumerate() {
        let outs = slot.take().unwrap_or_default();
        sink.tally(if i < corpus_n { "config:corpus" } else { "config:random" });
        for c in outs {
            if c.infeasible {
                sink.tally("infeasible-execution-skipped");
                continue;
            }
            sink.tally("executions");
            let tags: Vec<&str> = c.tags.iter().map(String::as_str).collect();
            sink.push(c.coq, c.desc, &tags, c.key);
        }
    }
    sink.finish();
}
