//! C18 — materialization and incremental maintenance are invisible.
//! One case = one history applied to two real `StorageEngine`s (one with the incremental engine,
//! one without).  After every operation a fixed list of relations is queried on both through
//! `execute_query_with_rules_tuples_on`; the incremental engine's set of materialized relations is
//! read from its published snapshot.  Emits cases for Checks/C18.v.
use inputlayer::statement::serialize::{RuleDef, SerializableRule};
use inputlayer::value::{Tuple, Value};
use inputlayer::{parse_rule, Config, StorageEngine};
use std::collections::BTreeSet;
use vharness::*;

const KG: &str = "k";
/// (model id, text, arity); heads may only mention heads that come EARLIER in `HEADS` (no mutual
/// recursion, no negation cycles) except in the deliberately malformed registrations.
const BASES: &[(u32, &str, usize)] = &[(0, "e0", 2), (1, "e1", 2), (2, "e2", 2), (3, "u0", 1)];
const HEADS: &[(u32, &str, usize)] = &[(13, "s0", 1), (10, "p0", 2), (14, "s1", 1), (11, "p1", 2), (12, "p2", 2)];

fn name_of(id: u32) -> (&'static str, usize) {
    for (i, n, a) in BASES.iter().chain(HEADS.iter()) {
        if *i == id {
            return (n, *a);
        }
    }
    panic!("unknown name id {id}")
}
fn id_of(text: &str) -> u32 {
    for (i, n, _) in BASES.iter().chain(HEADS.iter()) {
        if *n == text {
            return *i;
        }
    }
    999
}

#[derive(Clone, Debug)]
enum T {
    V(u32),
    C(Value),
}
#[derive(Clone, Debug)]
struct A {
    rel: u32,
    args: Vec<T>,
}
#[derive(Clone, Debug)]
struct Cl {
    head: A,
    body: Vec<(bool, A)>, // (negated, atom)
}
#[derive(Clone, Debug)]
enum Op {
    Ins(u32, Vec<Tuple>),
    Del(u32, Vec<Tuple>),
    Reg(u32, Cl),
    RmClause(u32, usize),
    Drop(u32),
    Enable,
    Mat(u32),
}

// ------------------------------------------------------------------ printers
fn term_text(t: &T) -> String {
    match t {
        T::V(i) => format!("V{i}"),
        T::C(Value::Int64(i)) => format!("{i}"),
        T::C(Value::String(s)) => format!("\"{s}\""),
        T::C(v) => panic!("constant kind not used: {v:?}"),
    }
}
fn atom_text(a: &A) -> String {
    let args: Vec<String> = a.args.iter().map(term_text).collect();
    format!("{}({})", name_of(a.rel).0, args.join(", "))
}
fn clause_text(c: &Cl) -> String {
    let body: Vec<String> =
        c.body.iter().map(|(neg, a)| format!("{}{}", if *neg { "!" } else { "" }, atom_text(a))).collect();
    format!("{} <- {}", atom_text(&c.head), body.join(", "))
}
fn term_coq(t: &T) -> String {
    match t {
        T::V(i) => format!("(TVar {})", coq_n(*i as u128)),
        T::C(v) => format!("(TConst {})", coq_value(v)),
    }
}
fn atom_coq(a: &A) -> String {
    let args: Vec<String> = a.args.iter().map(term_coq).collect();
    format!("(mkAtom {} {})", coq_n(a.rel as u128), coq_list(&args))
}
fn clause_coq(c: &Cl) -> String {
    let body: Vec<String> =
        c.body.iter().map(|(neg, a)| format!("({} {})", if *neg { "LNeg" } else { "LPos" }, atom_coq(a))).collect();
    format!("(mkClause {} {})", atom_coq(&c.head), coq_list(&body))
}
fn op_text(o: &Op) -> String {
    match o {
        Op::Ins(r, ts) => format!("insert {} {:?}", name_of(*r).0, tuples_text(ts)),
        Op::Del(r, ts) => format!("delete {} {:?}", name_of(*r).0, tuples_text(ts)),
        Op::Reg(_, c) => format!("register {}", clause_text(c)),
        Op::RmClause(n, i) => format!("remove clause {} of {}", i, name_of(*n).0),
        Op::Drop(n) => format!("drop rule {}", name_of(*n).0),
        Op::Enable => "enable_incremental".to_string(),
        Op::Mat(n) => format!("materialize {} (with the engine's current answer, if it is a rule)", name_of(*n).0),
    }
}
fn tuples_text(ts: &[Tuple]) -> Vec<String> {
    ts.iter()
        .map(|t| {
            let v: Vec<String> = t
                .values()
                .iter()
                .map(|v| match v {
                    Value::Int64(i) => format!("{i}"),
                    Value::String(s) => format!("\"{s}\""),
                    o => format!("{o:?}"),
                })
                .collect();
            format!("({})", v.join(","))
        })
        .collect()
}

// ------------------------------------------------------------------ driving the real engine
fn mk_engine(dir: &std::path::Path) -> StorageEngine {
    let mut config = Config::default();
    config.storage.data_dir = dir.to_path_buf();
    let st = StorageEngine::new(config).expect("StorageEngine::new");
    st.create_knowledge_graph(KG).expect("create kg");
    st
}
fn query(st: &StorageEngine, id: u32) -> Option<Vec<Tuple>> {
    let (n, ar) = name_of(id);
    let vars: Vec<String> = (0..ar).map(|i| format!("V{i}")).collect();
    let text = format!("c18q({}) <- {}({})", vars.join(", "), n, vars.join(", "));
    match st.execute_query_with_rules_tuples_on(KG, &text) {
        Ok(mut v) => {
            v.sort();
            v.dedup();
            Some(v)
        }
        Err(_) => None,
    }
}
/// Apply one operation; returns a comparable status text and, for registrations, whether the
/// catalog accepted the clause.
fn apply(st: &StorageEngine, o: &Op, is_inc: bool, enabled: &mut bool) -> (String, bool) {
    match o {
        Op::Ins(r, ts) => (format!("{:?}", st.insert_tuples_into(KG, name_of(*r).0, ts.clone()).map_err(|_| ())), true),
        Op::Del(r, ts) => (format!("{:?}", st.delete_tuples_from(KG, name_of(*r).0, ts.clone()).map_err(|_| ())), true),
        Op::Reg(n, c) => {
            let text = clause_text(c);
            match parse_rule(&text) {
                Ok(rule) => {
                    let def = RuleDef { name: name_of(*n).0.to_string(), rule: SerializableRule::from_rule(&rule) };
                    let r = st.register_rule_in(KG, &def);
                    (format!("{:?}", r.as_ref().map_err(|_| ())), r.is_ok())
                }
                Err(_) => ("parse error".to_string(), false),
            }
        }
        Op::RmClause(n, i) => (format!("{:?}", st.remove_rule_clause_in(KG, name_of(*n).0, *i).map_err(|_| ())), true),
        Op::Drop(n) => (format!("{:?}", st.drop_rule_in(KG, name_of(*n).0).map_err(|_| ())), true),
        Op::Enable => {
            if is_inc {
                st.with_kg_mut(KG, |kg| kg.enable_incremental().map_err(|e| e.to_string())).expect("enable_incremental");
                *enabled = true;
            }
            ("ok".to_string(), true)
        }
        Op::Mat(n) => {
            if is_inc && *enabled {
                let name = name_of(*n).0;
                let is_rule = st.rule_count_in(KG, name).ok().flatten().is_some();
                if is_rule {
                    // what a correct external materializer stores: the engine's own current answer
                    let tuples = query(st, *n).unwrap_or_default();
                    st.with_kg_read(KG, |kg| kg.materialize_derived_relation(name, tuples)).expect("materialize_derived_relation");
                }
            }
            ("ok".to_string(), true)
        }
    }
}

struct Outcome {
    coq: String,
    desc: serde_json::Value,
    tags: Vec<&'static str>,
    key: Option<String>,
    tallies: Vec<String>,
}

fn run_case(kind: &'static str, ops: &[Op]) -> Outcome {
    // relations queried after every step: every name the history mentions
    let mut names: BTreeSet<u32> = BTreeSet::new();
    for o in ops {
        match o {
            Op::Ins(r, _) | Op::Del(r, _) | Op::RmClause(r, _) | Op::Drop(r) | Op::Mat(r) => {
                names.insert(*r);
            }
            Op::Reg(n, c) => {
                names.insert(*n);
                for (_, a) in &c.body {
                    names.insert(a.rel);
                }
            }
            Op::Enable => {}
        }
    }
    let d_inc = tempfile::tempdir().expect("tempdir");
    let d_off = tempfile::tempdir().expect("tempdir");
    let st_inc = mk_engine(d_inc.path());
    let st_off = mk_engine(d_off.path());
    let (mut en_inc, mut en_off) = (false, false);
    let mut steps = vec![];
    let mut desc_steps = vec![];
    let mut tallies = vec![format!("kind:{kind}"), format!("len:{}", ops.len().min(20) / 4 * 4)];
    let (mut saw_mat, mut saw_head_answer, mut saw_diff, mut updates_after_mat) = (false, false, false, 0u32);
    for o in ops {
        let (s_inc, acc) = apply(&st_inc, o, true, &mut en_inc);
        let (s_off, _) = apply(&st_off, o, false, &mut en_off);
        let sane = s_inc == s_off;
        let op_coq = match o {
            Op::Ins(r, ts) => format!("(Insert {} {})", coq_n(*r as u128), coq_tuples(ts)),
            Op::Del(r, ts) => format!("(Delete {} {})", coq_n(*r as u128), coq_tuples(ts)),
            Op::Reg(n, c) => format!("(Register {} {} {})", coq_n(*n as u128), clause_coq(c), coq_bool(acc)),
            Op::RmClause(n, i) => format!("(RemoveClause {} {})", coq_n(*n as u128), coq_nat(*i)),
            Op::Drop(n) => format!("(Drop {})", coq_n(*n as u128)),
            Op::Enable => "Enable".to_string(),
            Op::Mat(n) => format!("(Materialize {})", coq_n(*n as u128)),
        };
        tallies.push(format!(
            "op:{}",
            match o {
                Op::Ins(..) => "insert",
                Op::Del(..) => "delete",
                Op::Reg(..) => if acc { "register" } else { "register-rejected" },
                Op::RmClause(..) => "remove-clause",
                Op::Drop(..) => "drop",
                Op::Enable => "enable",
                Op::Mat(..) => "materialize",
            }
        ));
        let snap = st_inc.get_snapshot_for(KG).expect("snapshot");
        let mut mats: Vec<u32> = snap.materialized_relations.iter().map(|n| id_of(n)).collect();
        mats.sort();
        if !mats.is_empty() {
            saw_mat = true;
            if matches!(o, Op::Ins(..) | Op::Del(..) | Op::Reg(..) | Op::RmClause(..) | Op::Drop(..)) {
                updates_after_mat += 1;
            }
        }
        let mut answers = vec![];
        let mut desc_ans = serde_json::Map::new();
        for n in &names {
            let a = query(&st_inc, *n);
            let b = query(&st_off, *n);
            if *n >= 10 && a.as_ref().map_or(false, |v| !v.is_empty()) {
                saw_head_answer = true;
            }
            if a != b {
                saw_diff = true;
            }
            let f = |x: &Option<Vec<Tuple>>| coq_opt(x.as_ref().map(|v| coq_tuples(v)));
            answers.push(format!("({}, ({}, {}))", coq_n(*n as u128), f(&a), f(&b)));
            let g = |x: &Option<Vec<Tuple>>| match x {
                Some(v) => serde_json::json!(tuples_text(v)),
                None => serde_json::json!("error"),
            };
            desc_ans.insert(name_of(*n).0.to_string(), serde_json::json!({"incremental": g(&a), "plain": g(&b)}));
        }
        let mats_coq: Vec<String> = mats.iter().map(|m| coq_n(*m as u128)).collect();
        steps.push(format!(
            "({}, C18Obs {} {} {})",
            op_coq,
            coq_bool(sane),
            coq_list(&mats_coq),
            coq_list(&answers)
        ));
        desc_steps.push(serde_json::json!({
            "op": op_text(o), "status_incremental": s_inc, "status_plain": s_off,
            "materialized": mats.iter().map(|m| name_of(*m).0).collect::<Vec<_>>(),
            "answers": desc_ans}));
    }
    let has_explicit = ops.iter().any(|o| matches!(o, Op::Mat(_)));
    let mut tags = vec![kind];
    tags.push(if has_explicit { "explicit-materialization" } else { "property-operations-only" });
    if saw_diff {
        tags.push("answers-differ");
    }
    if saw_mat {
        tags.push("something-materialized");
    }
    // non-trivial: some rule head had a non-empty answer with the incremental engine enabled, and
    // either a materialization was live while a later write/rule change happened, or (histories of
    // the property's own operations) at least one rule was registered after enabling
    let reg_after_enable = {
        let mut en = false;
        let mut r = false;
        for o in ops {
            match o {
                Op::Enable => en = true,
                Op::Reg(..) if en => r = true,
                _ => {}
            }
        }
        r
    };
    let nontrivial = saw_head_answer && ((saw_mat && updates_after_mat > 0) || (!has_explicit && reg_after_enable));
    let key = if nontrivial {
        Some(ops.iter().map(op_text).collect::<Vec<_>>().join(" ; "))
    } else {
        None
    };
    Outcome {
        coq: format!("C18Case {}", coq_list(&steps)),
        desc: serde_json::json!({"kind": kind, "steps": desc_steps,
            "replay": "two StorageEngines (Config::default with a temp data_dir, KG \"k\"); apply the ops in order to both, \
                       `enable_incremental`/`materialize` only on the first; query `c18q(V..) <- name(V..)` through execute_query_with_rules_tuples_on"}),
        tags,
        key,
        tallies,
    }
}

// ------------------------------------------------------------------ hand-written corpus
fn t(xs: &[i64]) -> Tuple {
    Tuple::new(xs.iter().map(|x| Value::Int64(*x)).collect())
}
fn v(i: u32) -> T {
    T::V(i)
}
fn atom(rel: u32, args: Vec<T>) -> A {
    A { rel, args }
}
fn copy(h: u32, b: u32) -> Cl {
    Cl { head: atom(h, vec![v(0), v(1)]), body: vec![(false, atom(b, vec![v(0), v(1)]))] }
}
fn tc_step(h: u32, b: u32) -> Cl {
    Cl { head: atom(h, vec![v(0), v(2)]), body: vec![(false, atom(h, vec![v(0), v(1)])), (false, atom(b, vec![v(1), v(2)]))] }
}
fn minus(h: u32, b: u32, n: u32) -> Cl {
    Cl { head: atom(h, vec![v(0), v(1)]), body: vec![(false, atom(b, vec![v(0), v(1)])), (true, atom(n, vec![v(0), v(1)]))] }
}

fn corpus() -> Vec<(&'static str, Vec<Op>)> {
    use Op::*;
    vec![
        // known class 1: rule over a derived relation, explicitly materialized, base of the inner rule changes
        ("corpus-class1-derived", vec![Enable, Ins(0, vec![t(&[1, 2]), t(&[2, 3])]), Reg(10, copy(10, 0)), Reg(11, copy(11, 10)), Mat(11), Ins(0, vec![t(&[3, 4])]), Del(0, vec![t(&[1, 2])])]),
        // known class 1 (other order): materialized rule mentions a relation that becomes derived later
        ("corpus-class1-becomes-derived", vec![Enable, Ins(0, vec![t(&[1, 2])]), Reg(11, copy(11, 10)), Mat(11), Reg(10, copy(10, 0))]),
        // known class 2: clause added after materialization
        ("corpus-class2-clause-added", vec![Enable, Ins(0, vec![t(&[1, 2])]), Ins(1, vec![t(&[7, 8])]), Reg(11, copy(11, 0)), Mat(11), Reg(11, copy(11, 1))]),
        // known class 2: clause removed after materialization, down to deleting the rule
        ("corpus-class2-clause-removed", vec![Enable, Ins(0, vec![t(&[1, 2])]), Ins(1, vec![t(&[7, 8])]), Reg(11, copy(11, 0)), Reg(11, copy(11, 1)), Mat(11), RmClause(11, 0), RmClause(11, 0)]),
        // known class 3: clause registered before enable_incremental
        ("corpus-class3-late-enable", vec![Ins(0, vec![t(&[1, 2])]), Reg(11, copy(11, 0)), Enable, Mat(11), Ins(0, vec![t(&[5, 6])])]),
        // known class 4: base facts stored under the name of a materialized head
        ("corpus-class4-facts-under-head", vec![Enable, Ins(11, vec![t(&[9, 9])]), Ins(0, vec![t(&[1, 2])]), Reg(11, copy(11, 0)), Mat(11), Del(11, vec![t(&[9, 9])])]),
        // class 0: flat recursive rule, materialized, unrelated write keeps it, related write invalidates it
        ("corpus-flat-tc", vec![Enable, Ins(0, vec![t(&[1, 2]), t(&[2, 3])]), Reg(11, copy(11, 0)), Reg(11, tc_step(11, 0)), Mat(11), Ins(1, vec![t(&[7, 8])]), Ins(0, vec![t(&[3, 4])]), Mat(11), Del(0, vec![t(&[1, 2])]), Ins(0, vec![t(&[3, 4])])]),
        // class 0: negation, materialization invalidated through the negated relation
        ("corpus-flat-negation", vec![Enable, Ins(0, vec![t(&[1, 2]), t(&[2, 3])]), Ins(1, vec![t(&[2, 3])]), Reg(10, minus(10, 0, 1)), Mat(10), Del(1, vec![t(&[2, 3])]), Mat(10), Ins(1, vec![t(&[1, 2])])]),
        // class 0: drop removes the materialization, re-registration starts clean
        ("corpus-drop-reregister", vec![Enable, Ins(0, vec![t(&[1, 2])]), Ins(1, vec![t(&[7, 8])]), Reg(11, copy(11, 0)), Mat(11), Drop(11), Reg(11, copy(11, 1)), Mat(11), Ins(0, vec![t(&[5, 6])]), Ins(1, vec![t(&[5, 6])])]),
        // the property's own operations only: rule over derived, negation, clause removal, drop
        ("corpus-plain", vec![Enable, Ins(0, vec![t(&[1, 2]), t(&[2, 3])]), Ins(1, vec![t(&[2, 3])]), Reg(10, copy(10, 0)), Reg(11, minus(11, 10, 1)), Reg(11, copy(11, 1)), RmClause(11, 1), Del(0, vec![t(&[2, 3])]), Drop(10), Ins(0, vec![t(&[4, 4])])]),
        // enable in the middle, duplicates, absent deletes, rejected operations
        ("corpus-noise", vec![Ins(0, vec![t(&[1, 2]), t(&[1, 2])]), Reg(10, copy(10, 0)), Ins(10, vec![t(&[5, 5])]), Enable, Enable, Ins(0, vec![t(&[1, 2])]), Del(0, vec![t(&[9, 9])]), Del(2, vec![t(&[1, 1])]), Drop(12), RmClause(10, 3), Mat(12), Mat(0), Reg(10, minus(10, 0, 10)), Del(0, vec![t(&[1, 2])])]),
    ]
}

// ------------------------------------------------------------------ random histories
fn gen_tuple(r: &mut Rng, rel: u32) -> Tuple {
    let ar = name_of(rel).1;
    if rel == 2 && r.chance(1, 2) {
        // e2 sometimes carries a string in its second column
        return Tuple::new(vec![Value::Int64(r.range(1, 4)), Value::String((*r.pick(&["a", "b"])).into())]);
    }
    Tuple::new((0..ar).map(|_| Value::Int64(r.range(1, 4))).collect())
}
fn gen_tuples(r: &mut Rng, rel: u32) -> Vec<Tuple> {
    (0..r.range(1, 3)).map(|_| gen_tuple(r, rel)).collect()
}
/// relations of arity `ar` a clause for head number `hi` (index in HEADS) may mention
fn pick_rel(r: &mut Rng, hi: usize, ar: usize, derived_bias: bool) -> u32 {
    let mut cands: Vec<u32> = BASES.iter().filter(|b| b.2 == ar).map(|b| b.0).collect();
    let lower: Vec<u32> = HEADS[..hi].iter().filter(|h| h.2 == ar).map(|h| h.0).collect();
    if !lower.is_empty() && (derived_bias || r.chance(1, 3)) {
        cands = lower;
    }
    *r.pick(&cands)
}
/// Clause shapes.  The engine (with or without incremental maintenance) mis-evaluates a head that
/// unions a two-atom join clause with any other clause (wrong arity / empty answers; a query-engine
/// defect outside this property), so the generator keeps join clauses alone on their head and the
/// recursive step only next to plain copy clauses.
#[derive(Clone, Copy, PartialEq, Debug)]
enum Kind {
    Plain,
    Neg,
    Join,
    Rec,
}
fn gen_clause(r: &mut Rng, hi: usize, kind: Kind, derived_bias: bool) -> Cl {
    let (h, _, ar) = HEADS[hi];
    let b = pick_rel(r, hi, 2, derived_bias);
    let b2 = pick_rel(r, hi, 2, false);
    let u = pick_rel(r, hi, 1, false);
    let c = T::C(Value::Int64(r.range(1, 4)));
    if ar == 2 {
        match kind {
            Kind::Plain => {
                if r.chance(2, 3) {
                    copy(h, b)
                } else {
                    Cl { head: atom(h, vec![v(0), v(1)]), body: vec![(false, atom(b, vec![v(1), v(0)]))] }
                }
            }
            Kind::Neg => minus(h, b, b2),
            Kind::Rec => tc_step(h, b),
            Kind::Join => match r.below(3) {
                0 => Cl { head: atom(h, vec![v(0), v(2)]), body: vec![(false, atom(b, vec![v(0), v(1)])), (false, atom(b2, vec![v(1), v(2)]))] },
                1 => Cl { head: atom(h, vec![v(0), v(1)]), body: vec![(false, atom(b, vec![v(0), v(1)])), (false, atom(u, vec![v(0)]))] },
                _ => Cl { head: atom(h, vec![v(0), v(1)]), body: vec![(false, atom(b, vec![v(0), v(1)])), (false, atom(b2, vec![v(1), c]))] },
            },
        }
    } else {
        match kind {
            Kind::Plain | Kind::Rec => match r.below(3) {
                0 => Cl { head: atom(h, vec![v(0)]), body: vec![(false, atom(u, vec![v(0)]))] },
                1 => Cl { head: atom(h, vec![v(0)]), body: vec![(false, atom(b, vec![v(0), v(1)]))] },
                _ => Cl { head: atom(h, vec![v(0)]), body: vec![(false, atom(b, vec![v(0), c]))] },
            },
            Kind::Neg => Cl { head: atom(h, vec![v(0)]), body: vec![(false, atom(b, vec![v(0), v(1)])), (true, atom(u, vec![v(1)]))] },
            Kind::Join => Cl { head: atom(h, vec![v(1)]), body: vec![(false, atom(b, vec![v(0), v(1)])), (false, atom(u, vec![v(0)]))] },
        }
    }
}
/// which clause kinds may be added to a head that currently has clauses of kinds `have`
fn allowed_kinds(have: &[Kind], binary: bool) -> Vec<Kind> {
    if have.is_empty() {
        return vec![Kind::Plain, Kind::Plain, Kind::Neg, Kind::Join];
    }
    if have.contains(&Kind::Join) {
        return vec![];
    }
    if have.contains(&Kind::Rec) {
        return vec![Kind::Plain];
    }
    if have.contains(&Kind::Neg) {
        return vec![Kind::Plain, Kind::Neg];
    }
    if binary {
        vec![Kind::Plain, Kind::Neg, Kind::Rec, Kind::Rec]
    } else {
        vec![Kind::Plain, Kind::Neg]
    }
}
/// registrations the catalog must reject (the model takes the verdict as an input)
fn gen_bad_clause(r: &mut Rng, hi: usize) -> Cl {
    let (h, _, ar) = HEADS[hi];
    let b = pick_rel(r, hi, 2, false);
    let hv: Vec<T> = (0..ar as u32).map(v).collect();
    match r.below(3) {
        0 => Cl { head: atom(h, hv.clone()), body: vec![(false, atom(b, vec![v(0), v(1)])), (true, atom(h, hv))] }, // self-negation
        1 => Cl { head: atom(h, (0..ar as u32).map(|i| v(i + 7)).collect()), body: vec![(false, atom(b, vec![v(0), v(1)]))] }, // unbound head variable
        _ => Cl { head: atom(h, hv), body: vec![(false, atom(b, vec![v(0), v(1)])), (true, atom(b, vec![v(0), v(9)]))] }, // unbound variable under negation
    }
}

fn gen_history(r: &mut Rng, explicit: bool) -> Vec<Op> {
    let len = r.range(5, 16) as usize;
    let enable_at = match r.below(10) {
        0 => usize::MAX,             // never
        1..=5 => 0,                  // at the start
        _ => r.below(len as u64) as usize,
    };
    let derived_bias = r.chance(1, 3);
    let mut ops = vec![];
    // the generator's own view of the catalog: per head, the kinds and texts of its clauses
    let mut sim: Vec<Vec<(Kind, String)>> = vec![vec![]; HEADS.len()];
    for i in 0..len {
        if i == enable_at {
            ops.push(Op::Enable);
        }
        let base = *r.pick(&[0u32, 0, 1, 1, 2, 3]);
        let registered: Vec<usize> = (0..HEADS.len()).filter(|h| !sim[*h].is_empty()).collect();
        let roll = r.below(100);
        let op = if roll < 24 || (i < 2 && roll < 60) {
            Op::Ins(base, gen_tuples(r, base))
        } else if roll < 36 {
            Op::Del(base, gen_tuples(r, base))
        } else if roll < 62 {
            let mut found = None;
            for _ in 0..6 {
                let hi = r.below(HEADS.len() as u64) as usize;
                let have: Vec<Kind> = sim[hi].iter().map(|k| k.0).collect();
                let allowed = allowed_kinds(&have, HEADS[hi].2 == 2);
                if allowed.is_empty() {
                    continue;
                }
                let kind = *r.pick(&allowed);
                let c = gen_clause(r, hi, kind, derived_bias);
                let text = clause_text(&c);
                if !sim[hi].iter().any(|k| k.1 == text) {
                    sim[hi].push((kind, text));
                }
                found = Some(Op::Reg(HEADS[hi].0, c));
                break;
            }
            found.unwrap_or_else(|| Op::Ins(base, gen_tuples(r, base)))
        } else if roll < 66 {
            let hi = r.below(HEADS.len() as u64) as usize;
            Op::Reg(HEADS[hi].0, gen_bad_clause(r, hi))
        } else if roll < 74 {
            let hi = if !registered.is_empty() && r.chance(4, 5) { *r.pick(&registered) } else { r.below(HEADS.len() as u64) as usize };
            let idx = r.below(3) as usize;
            if idx < sim[hi].len() {
                sim[hi].remove(idx);
            }
            Op::RmClause(HEADS[hi].0, idx)
        } else if roll < 80 {
            let hi = if !registered.is_empty() && r.chance(4, 5) { *r.pick(&registered) } else { r.below(HEADS.len() as u64) as usize };
            sim[hi].clear();
            Op::Drop(HEADS[hi].0)
        } else if roll < 82 {
            Op::Enable
        } else if roll < 84 {
            // insert under the name of an existing rule: rejected ("cannot insert into a view")
            if registered.is_empty() {
                Op::Ins(base, gen_tuples(r, base))
            } else {
                let hi = *r.pick(&registered);
                Op::Ins(HEADS[hi].0, gen_tuples(r, HEADS[hi].0))
            }
        } else if explicit {
            let hi = if !registered.is_empty() && r.chance(9, 10) { *r.pick(&registered) } else { r.below(HEADS.len() as u64) as usize };
            Op::Mat(HEADS[hi].0)
        } else {
            Op::Ins(base, gen_tuples(r, base))
        };
        ops.push(op);
    }
    ops
}

fn main() {
    let args = parse_args();
    let mut rng = Rng::new(args.seed);
    let mut sink = Sink::new(&args, "From IL Require Import Checks.C18.", "c18case", "c18_check", 40);
    // all histories first (every random choice comes from the one PRNG), then run them on the
    // real engines in parallel, then emit in order
    let mut hist: Vec<(&'static str, Vec<Op>)> = corpus();
    while hist.len() < args.n {
        let explicit = hist.len() % 2 == 0;
        let ops = gen_history(&mut rng, explicit);
        hist.push((if explicit { "random-explicit" } else { "random-plain" }, ops));
    }
    hist.truncate(args.n.max(1));
    let only = args.only;
    let n = hist.len();
    let results: Vec<Option<Outcome>> = {
        let next = std::sync::atomic::AtomicUsize::new(0);
        let slots: Vec<std::sync::Mutex<Option<Outcome>>> = (0..n).map(|_| std::sync::Mutex::new(None)).collect();
        std::thread::scope(|s| {
            for _ in 0..8 {
                s.spawn(|| loop {
                    let i = next.fetch_add(1, std::sync::atomic::Ordering::SeqCst);
                    if i >= n {
                        break;
                    }
                    if only.map_or(false, |o| o != i) {
                        continue;
                    }
                    let (kind, ops) = &hist[i];
                    let out = run_case(kind, ops);
                    *slots[i].lock().unwrap() = Some(out);
                });
            }
        });
        slots.into_iter().map(|m| m.into_inner().unwrap()).collect()
    };
    for r in results {
        match r {
            Some(o) => {
                for k in &o.tallies {
                    sink.tally(k);
                }
                sink.push(o.coq, o.desc, &o.tags, o.key);
            }
            None => sink.push(String::new(), serde_json::json!(null), &[], None), // skipped by --only
        }
    }
    sink.finish();
}
