//! C16 — rule and schema catalogs are durable and crash-safe.
//!
//! driver (default):  for every generated history, run it in a CHILD process (`--child`) under strace,
//!   let tools/fsreplay.py rebuild the data directory at every file-system mutation boundary and for
//!   every loss choice (unsynced data lost/torn, un-dir-synced renames/unlinks/links lost), open every
//!   reconstructed directory with the real `StorageEngine::new` and dump the catalogs it recovered;
//!   emit one Coq case per history for Checks/C16.v.
//! `--child SPEC DATA MARKER RESULT`: executes the history on a fresh data directory.
#[path = "../crash_common.rs"]
mod crash_common;
use crash_common::*;
use inputlayer::schema::{ColumnSchema, RelationSchema, SchemaType};
use inputlayer::statement::parse_rule_definition;
use inputlayer::statement::SerializableRule;
use inputlayer::{Config, StorageEngine};
use std::path::{Path, PathBuf};
use vharness::*;

// ---------------------------------------------------------------- menus (mirrored in Model/Catalog.v)
pub const NAMES: [&str; 4] = ["ra", "rab", "rb", "q"];
pub const PREFIXES: [&str; 4] = ["ra", "rb", "z", "r"];
pub const KGS: [&str; 2] = ["default", "kg1"];
pub const NCLAUSE: usize = 4;
pub const NSCHEMA: usize = 4;

fn clause_text(name: &str, v: usize) -> String {
    match v {
        0 => format!("{name}(X, Y) <- e(X, Y)"),
        1 => format!("{name}(X, Y) <- e(X, Z), e(Z, Y)"),
        2 => format!("{name}(X, Y) <- {name}(X, Z), e(Z, Y)"),
        _ => format!("{name}(X) <- f(X)"),
    }
}
fn clause(name: &str, v: usize) -> inputlayer::statement::RuleDef {
    parse_rule_definition(&clause_text(name, v)).expect("menu clause parses")
}
fn clause_id(name: &str, r: &SerializableRule) -> usize {
    let d = format!("{:?}", r);
    for v in 0..NCLAUSE {
        if format!("{:?}", clause(name, v).rule) == d {
            return v;
        }
    }
    99
}
fn schema(name: &str, v: usize) -> RelationSchema {
    let s = RelationSchema::new(name);
    match v {
        0 => s.with_column(ColumnSchema::new("a", SchemaType::Int)).with_column(ColumnSchema::new("b", SchemaType::Int)),
        1 => s.with_column(ColumnSchema::new("a", SchemaType::Int)).with_column(ColumnSchema::new("b", SchemaType::String)),
        2 => s.with_column(ColumnSchema::new("x", SchemaType::Float)),
        // invalid: duplicate column name
        _ => s.with_column(ColumnSchema::new("a", SchemaType::Int)).with_column(ColumnSchema::new("a", SchemaType::Int)),
    }
}
fn schema_id(name: &str, s: &RelationSchema) -> usize {
    for v in 0..NSCHEMA {
        if &schema(name, v) == s {
            return v;
        }
    }
    99
}

// ---------------------------------------------------------------- operations
#[derive(Clone, Debug, PartialEq)]
pub enum Op {
    Reg(usize, usize, usize),          // kg, name, clause variant
    Drop(usize, usize),                // kg, name
    Clear(usize, usize),               // kg, name
    RmClause(usize, usize, usize),     // kg, name, index
    Replace(usize, usize, usize, usize), // kg, name, index, clause variant
    DropPrefix(usize, usize),          // kg, prefix
    SReg(usize, usize, usize),         // kg, name, schema variant
    SUpd(usize, usize, usize),
    SRem(usize, usize),
    DropRel(usize, usize),
    Restart,
}
impl Op {
    fn text(&self) -> String {
        match self {
            Op::Reg(k, n, v) => format!("reg {k} {n} {v}"),
            Op::Drop(k, n) => format!("drop {k} {n}"),
            Op::Clear(k, n) => format!("clear {k} {n}"),
            Op::RmClause(k, n, i) => format!("rmclause {k} {n} {i}"),
            Op::Replace(k, n, i, v) => format!("replace {k} {n} {i} {v}"),
            Op::DropPrefix(k, p) => format!("dropprefix {k} {p}"),
            Op::SReg(k, n, v) => format!("sreg {k} {n} {v}"),
            Op::SUpd(k, n, v) => format!("supd {k} {n} {v}"),
            Op::SRem(k, n) => format!("srem {k} {n}"),
            Op::DropRel(k, n) => format!("droprel {k} {n}"),
            Op::Restart => "restart".to_string(),
        }
    }
    fn parse(s: &str) -> Op {
        let w: Vec<&str> = s.split_whitespace().collect();
        let n = |i: usize| w[i].parse::<usize>().expect("op arg");
        match w[0] {
            "reg" => Op::Reg(n(1), n(2), n(3)),
            "drop" => Op::Drop(n(1), n(2)),
            "clear" => Op::Clear(n(1), n(2)),
            "rmclause" => Op::RmClause(n(1), n(2), n(3)),
            "replace" => Op::Replace(n(1), n(2), n(3), n(4)),
            "dropprefix" => Op::DropPrefix(n(1), n(2)),
            "sreg" => Op::SReg(n(1), n(2), n(3)),
            "supd" => Op::SUpd(n(1), n(2), n(3)),
            "srem" => Op::SRem(n(1), n(2)),
            "droprel" => Op::DropRel(n(1), n(2)),
            "restart" => Op::Restart,
            other => panic!("bad op {other}"),
        }
    }
    fn coq(&self) -> String {
        let n = |x: &usize| coq_n(*x as u128);
        match self {
            Op::Reg(k, a, v) => format!("(CReg {} {} {})", n(k), n(a), n(v)),
            Op::Drop(k, a) => format!("(CDrop {} {})", n(k), n(a)),
            Op::Clear(k, a) => format!("(CClear {} {})", n(k), n(a)),
            Op::RmClause(k, a, i) => format!("(CRmClause {} {} {})", n(k), n(a), coq_nat(*i)),
            Op::Replace(k, a, i, v) => format!("(CReplace {} {} {} {})", n(k), n(a), coq_nat(*i), n(v)),
            Op::DropPrefix(k, p) => format!("(CDropPrefix {} {})", n(k), n(p)),
            Op::SReg(k, a, v) => format!("(CSReg {} {} {})", n(k), n(a), n(v)),
            Op::SUpd(k, a, v) => format!("(CSUpd {} {} {})", n(k), n(a), n(v)),
            Op::SRem(k, a) => format!("(CSRem {} {})", n(k), n(a)),
            Op::DropRel(k, a) => format!("(CDropRel {} {})", n(k), n(a)),
            Op::Restart => "CRestart".to_string(),
        }
    }
}

fn mk_config(dir: &Path) -> Config {
    let mut c = Config::default();
    c.storage.data_dir = dir.to_path_buf();
    c.storage.performance.num_threads = 1;
    c
}

/// One KG's catalogs as observed through the public API: rules (name idx -> clause ids), schemas (name idx -> schema id);
/// both sorted by name index. Unknown names / clauses map to 99.

type KgCats = (Vec<(usize, Vec<usize>)>, Vec<(usize, usize)>);

fn name_idx(s: &str) -> usize {
    NAMES.iter().position(|n| *n == s).unwrap_or(99)
}

fn observe(e: &StorageEngine, nkg: usize) -> Vec<Option<KgCats>> {
    let mut out = vec![];
    for kg in KGS.iter().take(nkg) {
        let rules = e.list_rules_in(kg);
        let schemas = e.list_schemas_in(kg);
        match (rules, schemas) {
            (Ok(rs), Ok(ss)) => {
                let mut r: Vec<(usize, Vec<usize>)> = rs
                    .iter()
                    .map(|name| {
                        let cl = e
                            .with_kg_read(kg, |k| Ok(k.rule_catalog().get(name).map(|d| d.rules.iter().map(|c| clause_id(name, c)).collect::<Vec<_>>())))
                            .ok()
                            .flatten()
                            .unwrap_or_else(|| vec![98]);
                        (name_idx(name), cl)
                    })
                    .collect();
                r.sort();
                let mut s: Vec<(usize, usize)> = ss
                    .iter()
                    .map(|name| {
                        let id = e.get_schema_in(kg, name).ok().flatten().map(|sc| schema_id(name, &sc)).unwrap_or(98);
                        (name_idx(name), id)
                    })
                    .collect();
                s.sort();
                out.push(Some((r, s)));
            }
            _ => out.push(None), // KG missing
        }
    }
    out
}

fn cats_json(c: &[Option<KgCats>]) -> serde_json::Value {
    serde_json::json!(c
        .iter()
        .map(|k| match k {
            None => serde_json::Value::Null,
            Some((r, s)) => serde_json::json!({"rules": r, "schemas": s}),
        })
        .collect::<Vec<_>>())
}
fn cats_from_json(v: &serde_json::Value) -> Vec<Option<KgCats>> {
    v.as_array()
        .expect("cats array")
        .iter()
        .map(|k| {
            if k.is_null() {
                None
            } else {
                let r = k["rules"]
                    .as_array()
                    .unwrap()
                    .iter()
                    .map(|e| (e[0].as_u64().unwrap() as usize, e[1].as_array().unwrap().iter().map(|x| x.as_u64().unwrap() as usize).collect()))
                    .collect();
                let s = k["schemas"].as_array().unwrap().iter().map(|e| (e[0].as_u64().unwrap() as usize, e[1].as_u64().unwrap() as usize)).collect();
                Some((r, s))
            }
        })
        .collect()
}
fn coq_cats(c: &[Option<KgCats>]) -> String {
    let v: Vec<String> = c
        .iter()
        .map(|k| match k {
            None => "None".to_string(),
            Some((r, s)) => {
                let rr: Vec<String> = r
                    .iter()
                    .map(|(n, cl)| format!("({}, {})", coq_n(*n as u128), coq_list(&cl.iter().map(|x| coq_n(*x as u128)).collect::<Vec<_>>())))
                    .collect();
                let ss: Vec<String> = s.iter().map(|(n, v)| format!("({}, [{}])", coq_n(*n as u128), coq_n(*v as u128))).collect();
                format!("(Some ({}, {}))", coq_list(&rr), coq_list(&ss))
            }
        })
        .collect();
    coq_list(&v)
}

fn apply(e: &mut StorageEngine, op: &Op) -> bool {
    match op {
        Op::Reg(k, n, v) => e.register_rule_in(KGS[*k], &clause(NAMES[*n], *v)).is_ok(),
        Op::Drop(k, n) => e.drop_rule_in(KGS[*k], NAMES[*n]).is_ok(),
        Op::Clear(k, n) => e.clear_rule_in(KGS[*k], NAMES[*n]).is_ok(),
        Op::RmClause(k, n, i) => e.remove_rule_clause_in(KGS[*k], NAMES[*n], *i).is_ok(),
        Op::Replace(k, n, i, v) => e.replace_rule_in(KGS[*k], NAMES[*n], *i, clause(NAMES[*n], *v).rule).is_ok(),
        Op::DropPrefix(k, p) => e.drop_rules_by_prefix_in(KGS[*k], PREFIXES[*p]).is_ok(),
        Op::SReg(k, n, v) => e.register_schema_in(KGS[*k], schema(NAMES[*n], *v)).is_ok(),
        Op::SUpd(k, n, v) => e.register_or_update_schema_in(KGS[*k], schema(NAMES[*n], *v)).is_ok(),
        Op::SRem(k, n) => e.remove_schema_in(KGS[*k], NAMES[*n]).is_ok(),
        Op::DropRel(k, n) => e.drop_relation_in(KGS[*k], NAMES[*n]).is_ok(),
        Op::Restart => unreachable!(),
    }
}

// ---------------------------------------------------------------- child: run the history on the real engine
fn child(spec: &Path, data: &Path, marker: &Path, result: &Path) {
    let text = std::fs::read_to_string(spec).expect("spec");
    let mut lines = text.lines();
    let nkg: usize = lines.next().unwrap().trim().parse().unwrap();
    let ops: Vec<Op> = lines.filter(|l| !l.trim().is_empty()).map(Op::parse).collect();
    let mut mk = Marker::open(marker);
    let mut eng = Some(StorageEngine::new(mk_config(data)).expect("open fresh store"));
    for kg in KGS.iter().take(nkg).skip(1) {
        eng.as_ref().unwrap().create_knowledge_graph(kg).expect("create kg");
    }
    mk.mark("SETUP");
    let mut res = vec![];
    for (i, op) in ops.iter().enumerate() {
        let ok = if *op == Op::Restart {
            drop(eng.take());
            match StorageEngine::new(mk_config(data)) {
                Ok(e) => {
                    eng = Some(e);
                    true
                }
                Err(_) => false,
            }
        } else {
            apply(eng.as_mut().unwrap(), op)
        };
        mk.mark(&format!("ACK {}", i));
        let live = match eng.as_ref() {
            Some(e) => cats_json(&observe(e, nkg)),
            None => serde_json::Value::Null,
        };
        res.push(serde_json::json!({"ok": ok, "live": live}));
        if eng.is_none() {
            break;
        }
    }
    mk.mark("END");
    std::fs::write(result, serde_json::to_string(&res).unwrap()).expect("result");
}

/// Open a reconstructed data directory with the real engine; None = open failed.
fn recover(dir: &Path, nkg: usize) -> Option<Vec<Option<KgCats>>> {
    let d = dir.to_path_buf();
    match catch(move || StorageEngine::new(mk_config(&d)).map(|e| observe(&e, nkg))) {
        Ok(Ok(c)) => Some(c),
        _ => None,
    }
}

// ---------------------------------------------------------------- abstraction of the replayer's output
/// data-dir relative path -> (model dir id, name id); name id 0 = catalog file, 1 = its .tmp
fn abs_file(path: &str, nkg: usize) -> Option<(usize, usize)> {
    for (k, kg) in KGS.iter().take(nkg).enumerate() {
        if path == format!("{kg}/rules/catalog.json") {
            return Some((2 * k, 0));
        }
        if path == format!("{kg}/rules/catalog.json.tmp") {
            return Some((2 * k, 1));
        }
        if path == format!("{kg}/schema.json") {
            return Some((2 * k + 1, 0));
        }
        if path == format!("{kg}/schema.json.tmp") {
            return Some((2 * k + 1, 1));
        }
    }
    None
}
fn abs_dir(path: &str, nkg: usize) -> Option<usize> {
    for (k, kg) in KGS.iter().take(nkg).enumerate() {
        if path == format!("{kg}/rules") {
            return Some(2 * k);
        }
        if path == *kg {
            return Some(2 * k + 1);
        }
    }
    None
}

/// One replayer event -> Some(Coq aev) or None (dropped: mkdir, END marker).
fn abs_event(ev: &serde_json::Value, nkg: usize) -> Option<String> {
    let kind = ev["ev"].as_str().unwrap_or("");
    let path = ev["path"].as_str().unwrap_or("");
    let n = |x: usize| coq_n(x as u128);
    let file = |ctor: &str| match abs_file(path, nkg) {
        Some((d, f)) => format!("({} {} {})", ctor, n(d), n(f)),
        None => "(EOther 1%N)".to_string(),
    };
    Some(match kind {
        "mkdir" => return None,
        "mark" => {
            if ev["text"].as_str().unwrap_or("").starts_with("ACK") {
                "EAck".to_string()
            } else {
                return None;
            }
        }
        "create" => file("ECreate"),
        "write" => {
            if ev.get("nonappend").is_some() {
                "(EOther 2%N)".to_string()
            } else {
                file("EWrite")
            }
        }
        "fsync" => file("EFsync"),
        "unlink" => file("EUnlink"),
        "rename" => match (abs_file(path, nkg), abs_file(ev["to"].as_str().unwrap_or(""), nkg)) {
            (Some((d, a)), Some((d2, b))) if d == d2 => format!("(ERename {} {} {})", n(d), n(a), n(b)),
            _ => "(EOther 3%N)".to_string(),
        },
        "fsyncdir" => match abs_dir(path, nkg) {
            Some(d) => format!("(EFsyncDir {})", n(d)),
            None => "(EOther 4%N)".to_string(),
        },
        _ => "(EOther 5%N)".to_string(),
    })
}

fn cls_code(c: &str) -> u128 {
    match c {
        "first" => 1,
        "mid" => 2,
        "last" => 3,
        _ => 0,
    }
}

/// loss descriptor -> Coq `mkLoss dirs inodes`; None if it mentions something outside the catalogs
fn abs_loss(loss: &serde_json::Value, nkg: usize) -> Option<String> {
    let mut dirs = vec![];
    for d in loss["dirs"].as_array().unwrap() {
        let id = abs_dir(d["dir"].as_str().unwrap(), nkg)?;
        dirs.push(format!("({}, {})", coq_n(id as u128), coq_nat(d["n"].as_u64().unwrap() as usize)));
    }
    let mut inos = vec![];
    for i in loss["inodes"].as_array().unwrap() {
        let id = abs_dir(i["dir"].as_str().unwrap(), nkg)?;
        inos.push(format!(
            "({}, {}, {}, {})",
            coq_n(id as u128),
            coq_nat(i["idx"].as_u64().unwrap() as usize),
            coq_nat(i["n"].as_u64().unwrap() as usize),
            coq_n(cls_code(i["cls"].as_str().unwrap_or("none")))
        ));
    }
    Some(format!("(mkLoss {} {})", coq_list(&dirs), coq_list(&inos)))
}

// ---------------------------------------------------------------- histories
/// Generator-side tracker of the rule catalogs (only used to AIM operations at interesting states;
/// the expected behaviour always comes from the Coq model): clause list per (kg, name).
#[derive(Clone, Default)]
struct Track {
    rules: Vec<Vec<Option<Vec<usize>>>>,
}
impl Track {
    fn new(nkg: usize) -> Track {
        Track { rules: vec![vec![None; NAMES.len()]; nkg] }
    }
    fn arity(v: usize) -> usize {
        if v == 3 { 1 } else { 2 }
    }
    fn apply(&mut self, op: &Op) {
        match op {
            Op::Reg(k, n, v) if *k < self.rules.len() => {
                let e = &mut self.rules[*k][*n];
                match e {
                    Some(cl) if !cl.is_empty() => {
                        if Track::arity(cl[0]) == Track::arity(*v) && !cl.contains(v) {
                            cl.push(*v);
                        }
                    }
                    _ => *e = Some(vec![*v]),
                }
            }
            Op::Drop(k, n) | Op::DropRel(k, n) if *k < self.rules.len() => self.rules[*k][*n] = None,
            Op::Clear(k, n) if *k < self.rules.len() => {
                if let Some(cl) = &mut self.rules[*k][*n] {
                    cl.clear();
                }
            }
            Op::RmClause(k, n, i) if *k < self.rules.len() => {
                let mut gone = false;
                if let Some(cl) = &mut self.rules[*k][*n] {
                    if *i < cl.len() {
                        cl.remove(*i);
                        gone = cl.is_empty();
                    }
                }
                if gone {
                    self.rules[*k][*n] = None;
                }
            }
            Op::Replace(k, n, i, v) if *k < self.rules.len() => {
                if let Some(cl) = &mut self.rules[*k][*n] {
                    if *i < cl.len() {
                        cl[*i] = *v;
                    }
                }
            }
            Op::DropPrefix(k, p) if *k < self.rules.len() => {
                for (n, name) in NAMES.iter().enumerate() {
                    if name.starts_with(PREFIXES[*p]) {
                        self.rules[*k][n] = None;
                    }
                }
            }
            _ => {}
        }
    }
    /// (kg, name, number of clauses) of every rule that currently has clauses
    fn live(&self) -> Vec<(usize, usize, usize)> {
        let mut v = vec![];
        for (k, kg) in self.rules.iter().enumerate() {
            for (n, e) in kg.iter().enumerate() {
                if let Some(cl) = e {
                    if !cl.is_empty() {
                        v.push((k, n, cl.len()));
                    }
                }
            }
        }
        v
    }
}

fn gen_op(r: &mut Rng, nkg: usize, tr: &Track) -> Op {
    // mostly valid kg, sometimes a kg that does not exist
    let k = if r.chance(1, 12) { 1 } else { r.below(nkg as u64) as usize };
    let n = r.below(4) as usize;
    let live = tr.live();
    match r.below(22) {
        0..=5 => Op::Reg(k, n, r.below(4) as usize),
        6 => Op::Drop(k, n),
        7 => Op::Clear(k, n),
        // remove-clause: half of the time aimed at an existing rule (first / last / only clause)
        8 | 9 | 10 => {
            if !live.is_empty() && r.chance(2, 3) {
                let (lk, ln, cnt) = *r.pick(&live);
                Op::RmClause(lk, ln, if r.chance(1, 2) { 0 } else { cnt - 1 })
            } else {
                Op::RmClause(k, n, r.below(3) as usize)
            }
        }
        11 => Op::Replace(k, n, r.below(3) as usize, r.below(4) as usize),
        12 => Op::DropPrefix(k, r.below(4) as usize),
        13..=15 => Op::SReg(k, n, r.below(4) as usize),
        16 => Op::SUpd(k, n, r.below(4) as usize),
        17 => Op::SRem(k, n),
        18 | 19 => Op::DropRel(k, n),
        _ => Op::Restart,
    }
}

fn gen_history(r: &mut Rng) -> (usize, Vec<Op>) {
    let nkg = if r.chance(2, 3) { 1 } else { 2 };
    let mut tr = Track::new(nkg);
    let mut ops = vec![];
    if r.chance(1, 3) {
        // TARGETED family: the FINAL catalog operation removes the last remaining clause of a rule
        // (single-clause rule, or a multi-clause rule taken down clause by clause), optionally followed
        // by a clean restart: nothing later can repair a removal that was not persisted.
        for _ in 0..r.below(3) {
            let op = gen_op(r, nkg, &tr);
            tr.apply(&op);
            ops.push(op);
        }
        let k = r.below(nkg as u64) as usize;
        let n = r.below(4) as usize;
        let base = if r.chance(1, 4) { 3 } else { r.below(3) as usize };
        let first = Op::Reg(k, n, base);
        tr.apply(&first);
        ops.push(first);
        if base != 3 && r.chance(1, 2) {
            let second = Op::Reg(k, n, (base + 1) % 3);
            tr.apply(&second);
            ops.push(second);
        }
        if r.chance(1, 4) {
            let other = Op::SReg(k, (n + 1) % 4, r.below(3) as usize);
            ops.push(other);
        }
        loop {
            let cnt = tr.rules[k][n].as_ref().map_or(0, |c| c.len());
            if cnt == 0 {
                break;
            }
            let rm = Op::RmClause(k, n, if r.chance(1, 2) { 0 } else { cnt - 1 });
            tr.apply(&rm);
            ops.push(rm);
        }
        if r.chance(1, 2) {
            ops.push(Op::Restart);
        }
        return (nkg, ops);
    }
    let len = r.range(1, 8) as usize;
    for _ in 0..len {
        let op = gen_op(r, nkg, &tr);
        tr.apply(&op);
        ops.push(op);
    }
    (nkg, ops)
}

fn corpus() -> Vec<(usize, Vec<Op>)> {
    vec![
        // torn rule catalog (defect 15): second registration rewrites a non-empty catalog
        (1, vec![Op::Reg(0, 0, 0), Op::Reg(0, 2, 1)]),
        // torn schema catalog
        (1, vec![Op::SReg(0, 0, 0), Op::SReg(0, 2, 1), Op::SRem(0, 0)]),
        // drop_relation must persist the schema removal (restart brings it back otherwise)
        (1, vec![Op::SReg(0, 0, 0), Op::Reg(0, 0, 0), Op::DropRel(0, 0), Op::Restart]),
        // two KGs: a torn catalog of one KG must not take the other down
        (2, vec![Op::Reg(0, 0, 0), Op::Reg(1, 2, 1), Op::SReg(1, 3, 2), Op::Drop(0, 0)]),
        // clause-level edits, arity change after clear, prefix drop
        (1, vec![Op::Reg(0, 0, 0), Op::Reg(0, 0, 2), Op::Reg(0, 0, 3), Op::RmClause(0, 0, 0), Op::Clear(0, 0), Op::Reg(0, 0, 3), Op::Reg(0, 1, 1), Op::DropPrefix(0, 0)]),
        // errors only: nothing may be written
        (1, vec![Op::Drop(0, 0), Op::SReg(0, 0, 3), Op::RmClause(0, 1, 0), Op::Reg(1, 0, 0), Op::DropRel(0, 2)]),
        (1, vec![Op::Reg(0, 3, 1), Op::Replace(0, 3, 0, 0), Op::Restart, Op::SUpd(0, 3, 1), Op::SUpd(0, 3, 2), Op::Restart, Op::Drop(0, 3)]),
        // remove-clause on the ONLY clause of a rule as the final catalog operation, then a clean restart
        (1, vec![Op::Reg(0, 0, 0), Op::RmClause(0, 0, 0), Op::Restart]),
        // ... and without restart: every crash point after the acknowledged removal must not bring the rule back
        (1, vec![Op::Reg(0, 2, 1), Op::RmClause(0, 2, 0)]),
        // a multi-clause rule taken down to nothing, last removal is the final catalog write, second KG untouched
        (2, vec![Op::Reg(1, 1, 0), Op::Reg(1, 1, 1), Op::Reg(1, 1, 2), Op::Reg(0, 3, 3), Op::RmClause(1, 1, 2), Op::RmClause(1, 1, 0), Op::RmClause(1, 1, 0), Op::Restart]),
        // removal of the last clause while a schema of the same name stays, restart, re-register with another arity
        (1, vec![Op::SReg(0, 3, 1), Op::Reg(0, 3, 3), Op::RmClause(0, 3, 0), Op::Restart, Op::Reg(0, 3, 0)]),
        // clear (rule stays registered with no clauses) vs remove-clause (rule disappears), both final before restart
        (1, vec![Op::Reg(0, 1, 0), Op::Clear(0, 1), Op::Restart, Op::Reg(0, 1, 3), Op::RmClause(0, 1, 0), Op::Restart]),
    ]
}

struct CaseOut {
    coq: String,
    desc: serde_json::Value,
    nontrivial: Option<String>,
    ncrash: u64,
    ntrees: u64,
    nfail_open: u64,
    tags: Vec<String>,
}

fn run_case(idx: usize, nkg: usize, ops: &[Op], seed: u64, cap: usize, keep: bool) -> CaseOut {
    let work = tempfile::Builder::new().prefix(&format!("c16-{idx}-")).tempdir().expect("tempdir");
    let w = work.path();
    let spec = w.join("spec.txt");
    let data = w.join("data");
    let marker = w.join("marker");
    let result = w.join("result.json");
    let mut text = format!("{}\n", nkg);
    for o in ops {
        text.push_str(&o.text());
        text.push('\n');
    }
    std::fs::write(&spec, &text).unwrap();
    let args: Vec<String> = vec!["--child".into(), spec.display().to_string(), data.display().to_string(), marker.display().to_string(), result.display().to_string()];
    let (ok, log, out) = run_child_traced(w, &args);
    let hist_text: Vec<String> = ops.iter().map(|o| o.text()).collect();
    let fail = |why: String| CaseOut {
        coq: format!("(C16Broken {})", coq_nat(nkg)),
        desc: serde_json::json!({"nkg": nkg, "history": hist_text, "harness_failure": why}),
        nontrivial: None,
        ncrash: 0,
        ntrees: 0,
        nfail_open: 0,
        tags: vec!["harness-failure".into()],
    };
    if !ok {
        return fail(format!("child failed: {}", &out[out.len().saturating_sub(600)..]));
    }
    let res: serde_json::Value = serde_json::from_str(&std::fs::read_to_string(&result).unwrap_or_default()).unwrap_or(serde_json::Value::Null);
    let states = w.join("states");
    let index = match run_replayer(&log, &data, &marker, &states, "full", seed, cap) {
        Ok(i) => i,
        Err(e) => return fail(e),
    };
    let warnings: Vec<String> = index["warnings"].as_array().map(|a| a.iter().map(|x| x.as_str().unwrap_or("").to_string()).collect()).unwrap_or_default();
    // recover every distinct tree once
    let ntrees = index["ntrees"].as_u64().unwrap_or(0) as usize;
    // every reconstructed tree is recovered at the path of the original data directory
    let _ = std::fs::remove_dir_all(&data);
    let outcomes: Vec<Option<Vec<Option<KgCats>>>> = (0..ntrees)
        .map(|t| {
            std::fs::rename(states.join("trees").join(t.to_string()), &data).expect("move tree into place");
            let r = recover(&data, nkg);
            let _ = std::fs::remove_dir_all(&data);
            r
        })
        .collect();
    // abstract trace and crash list
    let events = index["events"].as_array().unwrap();
    let mut trace = vec![];
    let mut kmap = vec![0usize]; // real event count -> abstract event count
    let mut dropped_last = vec![false];
    for ev in events {
        match abs_event(ev, nkg) {
            Some(e) => {
                trace.push(e);
                dropped_last.push(false);
            }
            None => dropped_last.push(true),
        }
        kmap.push(trace.len());
    }
    let mut crashes = vec![];
    let mut crash_desc = vec![];
    let mut nfail = 0u64;
    let mut unknown_loss = false;
    for p in index["points"].as_array().unwrap() {
        let k = p["k"].as_u64().unwrap() as usize;
        if dropped_last[k] {
            continue; // same abstract point as the previous one
        }
        for s in p["states"].as_array().unwrap() {
            let t = s["tree"].as_u64().unwrap() as usize;
            let loss = match abs_loss(&s["loss"], nkg) {
                Some(l) => l,
                None => {
                    unknown_loss = true;
                    continue;
                }
            };
            let oc = &outcomes[t];
            if oc.is_none() {
                nfail += 1;
            }
            let oc_coq = match oc {
                None => "None".to_string(),
                Some(c) => format!("(Some {})", coq_cats(c)),
            };
            crashes.push(format!("(C16Crash {} {} {})", coq_nat(kmap[k]), loss, oc_coq));
            if crash_desc.len() < 400 {
                crash_desc.push(serde_json::json!({"after_event": kmap[k], "loss": s["loss"], "tree": t,
                    "recovered": match oc { None => serde_json::json!("OPEN-FAILED"), Some(c) => cats_json(c) }}));
            }
        }
    }
    let mut results = vec![];
    if let Some(arr) = res.as_array() {
        for r in arr {
            let live = if r["live"].is_null() { "None".to_string() } else { format!("(Some {})", coq_cats(&cats_from_json(&r["live"]))) };
            results.push(format!("({}, {})", coq_bool(r["ok"].as_bool().unwrap_or(false)), live));
        }
    }
    let mut tags = vec![];
    if !warnings.is_empty() || unknown_loss {
        tags.push("replayer-warning".to_string());
    }
    let clean = warnings.is_empty() && !unknown_loss;
    let coq = format!(
        "(C16Case {} {} {} {} {} {})",
        coq_nat(nkg),
        coq_list(&ops.iter().map(|o| o.coq()).collect::<Vec<_>>()),
        coq_list(&results),
        coq_list(&trace),
        coq_list(&crashes),
        coq_bool(clean)
    );
    let ncrash = crashes.len() as u64;
    let nontrivial = if trace.len() > ops.len() { Some(format!("{} | {}", nkg, hist_text.join("; "))) } else { None };
    if keep {
        let keepdir = std::env::temp_dir().join(format!("c16-keep-{idx}"));
        let _ = std::fs::remove_dir_all(&keepdir);
        let _ = std::process::Command::new("cp").arg("-r").arg(w).arg(&keepdir).status();
        eprintln!("kept work dir of case {idx} at {}", keepdir.display());
    }
    CaseOut {
        coq,
        desc: serde_json::json!({"nkg": nkg, "history": hist_text, "names": NAMES, "kgs": &KGS[..nkg], "results": res,
            "events": events, "replayer_warnings": warnings, "crash_states": crash_desc,
            "replay": "harness c16 --only <idx> (child under strace, tools/fsreplay.py, StorageEngine::new on every reconstructed tree)"}),
        nontrivial,
        ncrash,
        ntrees: ntrees as u64,
        nfail_open: nfail,
        tags,
    }
}

fn main() {
    let raw: Vec<String> = std::env::args().collect();
    if raw.len() >= 6 && raw[1] == "--child" {
        child(Path::new(&raw[2]), Path::new(&raw[3]), Path::new(&raw[4]), Path::new(&raw[5]));
        return;
    }
    if raw.len() >= 3 && raw[1] == "--recover" {
        let r = recover(Path::new(&raw[2]), 2);
        println!("{}", match r { Some(c) => cats_json(&c).to_string(), None => "OPEN-FAILED".into() });
        return;
    }
    let args = parse_args();
    let mut rng = Rng::new(args.seed);
    let mut sink = Sink::new(&args, "From IL Require Import Checks.C16.", "c16case", "c16_check", 6);
    let mut cases: Vec<(usize, Vec<Op>)> = corpus();
    while cases.len() < args.n.max(cases.len()) {
        cases.push(gen_history(&mut rng));
    }
    cases.truncate(args.n.max(1));
    let cap = args.extra.iter().position(|a| a == "--cap").and_then(|i| args.extra.get(i + 1)).and_then(|s| s.parse().ok()).unwrap_or(24usize);
    let keep = args.extra.iter().any(|a| a == "--keep");
    let seed = args.seed;
    let only = args.only;
    let outs = par_map(cases.len(), 16, |i| {
        if only.map_or(true, |o| o == i) {
            Some(run_case(i, cases[i].0, &cases[i].1, seed.wrapping_add(i as u64), cap, keep && only.is_some()))
        } else {
            None
        }
    });
    for (i, o) in outs.into_iter().enumerate() {
        let (nkg, ops) = &cases[i];
        for op in ops {
            sink.tally(&format!("op:{}", op.text().split(' ').next().unwrap()));
        }
        sink.tally(&format!("nkg:{}", nkg));
        sink.tally(&format!("len:{}", ops.len()));
        match o {
            Some(c) => {
                sink.tally_n("crash_states", c.ncrash);
                sink.tally_n("distinct_trees_recovered", c.ntrees);
                sink.tally_n("crash_states_open_failed", c.nfail_open);
                let tags: Vec<&str> = c.tags.iter().map(|s| s.as_str()).collect();
                sink.push(c.coq, c.desc, &tags, c.nontrivial);
            }
            None => sink.push(format!("(C16Broken {})", coq_nat(*nkg)), serde_json::json!({}), &[], None),
        }
    }
    sink.finish();
    let _ = PathBuf::new();
}
