//! C11 — restart reproduces the live state.
//! Drives a real `StorageEngine` on a temp dir through histories of insert / delete (with
//! duplicate inserts, in-batch duplicates, deletes of absent tuples) / save / compact / restart,
//! observing the relation after every step; emits cases for Checks/C11.v.
use inputlayer::value::{Tuple, Value};
use inputlayer::{Config, StorageEngine};
use vharness::*;

const KG: &str = "default";
const REL: &str = "r";

#[derive(Clone, Debug)]
enum Op {
    Ins(Vec<Tuple>),
    Del(Vec<Tuple>),
    Save,
    Compact,
    Restart,
}

fn mk_config(dir: &std::path::Path, buffer: usize) -> Config {
    let mut c = Config::default();
    c.storage.data_dir = dir.to_path_buf();
    c.storage.persist.buffer_size = buffer;
    c.storage.performance.num_threads = 1;
    c
}

/// (query answer, raw base tuples) of relation r
fn observe(e: &StorageEngine, arity: usize) -> (Vec<Tuple>, Vec<Tuple>) {
    let raw = e.get_rules_and_data(KG).map(|(_, d)| d.get(REL).cloned().unwrap_or_default()).unwrap_or_default();
    let vars: Vec<String> = (0..arity).map(|i| format!("X{}", i)).collect();
    let q = match e.execute_query_tuples_on(KG, &format!("q({}) <- {}({})", vars.join(", "), REL, vars.join(", "))) {
        Ok(v) => v,
        Err(_) => vec![], // relation unknown to the engine = empty
    };
    (q, raw)
}

fn show_tuple(t: &Tuple) -> String {
    format!("{:?}", t.values())
}

struct Out {
    coq: Vec<String>,
    desc: Vec<String>,
}

fn run_history(ops: &[Op], buffer: usize, arity: usize) -> Out {
    let dir = tempfile::tempdir().expect("tempdir");
    let cfg = mk_config(dir.path(), buffer);
    let mut eng = Some(StorageEngine::new(cfg.clone()).expect("open fresh store"));
    let mut out = Out { coq: vec![], desc: vec![] };
    let obs = |e: &StorageEngine, out: &mut Out| {
        let (q, raw) = observe(e, arity);
        out.coq.push(format!("C11Obs {} {}", coq_tuples(&q), coq_tuples(&raw)));
        let mut qs: Vec<String> = q.iter().map(show_tuple).collect();
        qs.sort();
        out.desc.push(format!("  -> contents {}", qs.join(" ")));
    };
    obs(eng.as_ref().unwrap(), &mut out);
    for op in ops {
        let Some(e) = eng.as_ref() else {
            break;
        };
        match op {
            Op::Ins(ts) => {
                let r = e.insert_tuples_into(KG, REL, ts.clone());
                let res = match &r {
                    Ok((n, d)) => format!("(Some ({}, {}))", coq_n(*n as u128), coq_n(*d as u128)),
                    Err(_) => "None".to_string(),
                };
                out.coq.push(format!("C11Ins {} {}", coq_tuples(ts), res));
                out.desc.push(format!("insert {} => {:?}", ts.iter().map(show_tuple).collect::<Vec<_>>().join(" "), r.map_err(|e| e.to_string())));
            }
            Op::Del(ts) => {
                let r = e.delete_tuples_from(KG, REL, ts.clone());
                let res = match &r {
                    Ok(n) => format!("(Some {})", coq_n(*n as u128)),
                    Err(_) => "None".to_string(),
                };
                out.coq.push(format!("C11Del {} {}", coq_tuples(ts), res));
                out.desc.push(format!("delete {} => {:?}", ts.iter().map(show_tuple).collect::<Vec<_>>().join(" "), r.map_err(|e| e.to_string())));
            }
            Op::Save => {
                let r = e.save_all();
                out.coq.push(format!("C11Save {}", coq_bool(r.is_ok())));
                out.desc.push(format!("save => {:?}", r.map_err(|e| e.to_string())));
            }
            Op::Compact => {
                let r = e.compact_all();
                out.coq.push(format!("C11Compact {}", coq_bool(r.is_ok())));
                out.desc.push(format!("compact => {:?}", r.map_err(|e| e.to_string())));
            }
            Op::Restart => {
                drop(eng.take());
                match StorageEngine::new(cfg.clone()) {
                    Ok(e2) => {
                        eng = Some(e2);
                        out.coq.push("C11Restart true".to_string());
                        out.desc.push("restart => ok".to_string());
                    }
                    Err(e) => {
                        out.coq.push("C11Restart false".to_string());
                        out.desc.push(format!("restart => FAILED {}", e));
                    }
                }
            }
        }
        if let Some(e) = eng.as_ref() {
            obs(e, &mut out);
        }
    }
    out
}

fn mk_tuple(kind: u64, i: u64) -> Tuple {
    match kind {
        0 => Tuple::new(vec![Value::Int64(i as i64), Value::String(format!("s{}", i % 2).into())]),
        1 => Tuple::new(vec![Value::Int32(i as i32), Value::Int32((i * 7 % 3) as i32)]),
        2 => Tuple::new(vec![Value::Int64(i as i64)]),
        _ => Tuple::new(vec![Value::String(format!("k{}", i).into()), Value::Bool(i % 2 == 0), Value::Int64(-(i as i64))]),
    }
}
fn arity_of(kind: u64) -> usize {
    match kind {
        0 | 1 => 2,
        2 => 1,
        _ => 3,
    }
}

/// history is "effective" when no insert names a present tuple (or repeats one in its batch) and no
/// delete names an absent one; everything else is the non-trivial part of the space for C11.
fn non_effective(ops: &[Op]) -> bool {
    let mut s: Vec<Tuple> = vec![];
    let mut bad = false;
    for op in ops {
        match op {
            Op::Ins(ts) => {
                for t in ts {
                    if s.contains(t) {
                        bad = true;
                    } else {
                        s.push(t.clone());
                    }
                }
            }
            Op::Del(ts) => {
                for t in ts {
                    if !s.contains(t) {
                        bad = true;
                    }
                }
                s.retain(|t| !ts.contains(t));
            }
            _ => {}
        }
    }
    bad
}

fn emit(sink: &mut Sink, ops: &[Op], buffer: usize, kind: u64, tag: &'static str) {
    if !sink.wants(sink.next_idx()) {
        sink.push(String::new(), serde_json::json!(null), &[tag], None);
        return;
    }
    let arity = arity_of(kind);
    let out = run_history(ops, buffer, arity);
    let coq = format!("C11Case {}", coq_list(&out.coq.iter().map(|s| format!("({})", s)).collect::<Vec<_>>()));
    let ne = non_effective(ops);
    sink.tally(&format!("buffer:{}", buffer));
    sink.tally(&format!("len:{}", ops.len().min(30) / 5 * 5));
    sink.tally(if ne { "history:non-effective" } else { "history:effective" });
    for op in ops {
        sink.tally(match op {
            Op::Ins(_) => "op:insert",
            Op::Del(_) => "op:delete",
            Op::Save => "op:save",
            Op::Compact => "op:compact",
            Op::Restart => "op:restart",
        });
    }
    let key = if ne { Some(format!("{} {} {:?}", buffer, kind, ops)) } else { None };
    sink.push(coq, serde_json::json!({"buffer_size": buffer, "tuple_kind": kind, "steps": out.desc}), &[tag], key);
}

fn main() {
    let args = parse_args();
    let mut rng = Rng::new(args.seed);
    let mut sink = Sink::new(&args, "From IL Require Import Checks.C11.", "c11case", "c11_check", 25);
    let x = |k| mk_tuple(k, 1);
    let y = |k| mk_tuple(k, 2);
    // ---- corpus: the two once-failing shapes, with and without maintenance in between
    for &buffer in &[1usize, 2, 10000] {
        for kind in [0u64, 1] {
            emit(&mut sink, &[Op::Ins(vec![x(kind)]), Op::Ins(vec![x(kind)]), Op::Del(vec![x(kind)]), Op::Restart], buffer, kind, "corpus");
            emit(&mut sink, &[Op::Del(vec![x(kind)]), Op::Ins(vec![x(kind)]), Op::Restart], buffer, kind, "corpus");
            emit(&mut sink, &[Op::Ins(vec![x(kind), x(kind)]), Op::Del(vec![x(kind)]), Op::Restart], buffer, kind, "corpus");
            emit(
                &mut sink,
                &[Op::Ins(vec![x(kind)]), Op::Save, Op::Ins(vec![x(kind), y(kind)]), Op::Compact, Op::Del(vec![x(kind)]), Op::Compact, Op::Restart, Op::Del(vec![x(kind)]), Op::Ins(vec![x(kind)]), Op::Restart],
                buffer,
                kind,
                "corpus",
            );
            emit(
                &mut sink,
                &[Op::Del(vec![x(kind), x(kind)]), Op::Restart, Op::Ins(vec![x(kind)]), Op::Compact, Op::Restart, Op::Del(vec![y(kind)]), Op::Restart],
                buffer,
                kind,
                "corpus",
            );
        }
    }
    // ---- corpus: a delete whose arity differs from the relation's (once poisoned the shard: every later
    //      flush failed and the store did not reopen)
    for &buffer in &[1usize, 2, 10000] {
        let wrong = Tuple::new(vec![Value::Int64(1)]);
        emit(&mut sink, &[Op::Ins(vec![x(0)]), Op::Del(vec![wrong.clone(), mk_tuple(2, 0)]), Op::Ins(vec![y(0)]), Op::Save, Op::Restart], buffer, 0, "corpus");
        emit(&mut sink, &[Op::Ins(vec![x(0)]), Op::Del(vec![x(0), wrong.clone()]), Op::Compact, Op::Restart, Op::Del(vec![wrong]), Op::Restart], buffer, 0, "corpus");
    }
    // ---- exhaustive small histories over 2 tuples (length <= 2 in quick runs; the thorough tier
    //      reaches length 5 through `--n`): ops = ins x | ins y | del x | del y | compact | restart
    let alphabet = |k: u64| -> Vec<Op> {
        vec![Op::Ins(vec![x(k)]), Op::Ins(vec![y(k)]), Op::Del(vec![x(k)]), Op::Del(vec![y(k)]), Op::Compact, Op::Restart]
    };
    let max_len = if args.n >= 4000 { 5 } else if args.n >= 1000 { 4 } else { 2 };
    {
        let al = alphabet(0);
        let mut stack: Vec<Vec<usize>> = vec![vec![]];
        while let Some(w) = stack.pop() {
            if !w.is_empty() {
                let mut ops: Vec<Op> = w.iter().map(|&i| al[i].clone()).collect();
                ops.push(Op::Restart);
                emit(&mut sink, &ops, 2, 0, "exhaustive");
            }
            if w.len() < max_len {
                for i in (0..al.len()).rev() {
                    let mut w2 = w.clone();
                    w2.push(i);
                    stack.push(w2);
                }
            }
        }
    }
    // ---- random histories
    for _ in 0..args.n {
        let kind = rng.below(4);
        let dom = rng.range(2, 4) as u64;
        let buffer = *rng.pick(&[1usize, 2, 3, 10000]);
        let len = if rng.chance(1, 5) { rng.range(10, 30) } else { rng.range(1, 9) };
        let malformed = rng.chance(1, 8);
        let mut ops = vec![];
        // the generator tracks the live set so that wrong-arity tuples are only offered while the
        // relation is non-empty (then the engine knows its arity and must reject them); a relation
        // re-created with another arity after becoming empty is C12's territory (batch schemas)
        let mut live: Vec<Tuple> = vec![];
        for _ in 0..len {
            let pick = |rng: &mut Rng| mk_tuple(kind, rng.below(dom));
            match rng.below(20) {
                0..=7 => {
                    let n = rng.range(1, 3);
                    let mut ts: Vec<Tuple> = (0..n).map(|_| pick(&mut rng)).collect();
                    let mut rejected = false;
                    if malformed && rng.chance(1, 3) {
                        match rng.below(3) {
                            0 => ts.clear(),
                            1 => {
                                ts.push(Tuple::new(vec![Value::Int64(9)])); // mixed arity in batch (valid for the unary kind)
                                rejected = arity_of(kind) != 1;
                            }
                            _ => {
                                if !live.is_empty() {
                                    ts = vec![mk_tuple((kind + 2) % 4, 1)]; // arity differs from the relation's
                                    rejected = true;
                                }
                            }
                        }
                    }
                    if !rejected {
                        for t in &ts {
                            if !live.contains(t) {
                                live.push(t.clone());
                            }
                        }
                    }
                    ops.push(Op::Ins(ts));
                }
                8..=13 => {
                    let n = rng.range(1, 2);
                    let mut ts: Vec<Tuple> = (0..n).map(|_| pick(&mut rng)).collect();
                    let mut rejected = false;
                    if malformed && rng.chance(1, 3) {
                        match rng.below(3) {
                            0 => ts.clear(),
                            1 => {
                                ts.push(Tuple::new(vec![Value::Int64(9)]));
                                rejected = arity_of(kind) != 1;
                            }
                            _ => {
                                if !live.is_empty() {
                                    ts = vec![mk_tuple((kind + 2) % 4, 1)];
                                    rejected = true;
                                }
                            }
                        }
                    }
                    if !rejected {
                        live.retain(|t| !ts.contains(t));
                    }
                    ops.push(Op::Del(ts));
                }
                14 | 15 => ops.push(Op::Save),
                16 | 17 => ops.push(Op::Compact),
                _ => ops.push(Op::Restart),
            }
        }
        ops.push(Op::Restart);
        emit(&mut sink, &ops, buffer, kind, if malformed { "random-malformed" } else { "random" });
    }
    sink.finish();
}
