//! C30 — a program with a syntax error has no effect: every generated program is run as is
//! (effects in program order) and with a syntax error injected at every position.
#[path = "../auth_common.rs"]
mod auth_common;
fn main() {
    auth_common::drive(&auth_common::Params {
        ctor: "C30Case",
        header: "From IL Require Import Checks.C30.",
        case_ty: "c30case",
        checker: "c30_check",
        internal_bias: 1,
        inject_errors: true,
        admin_share: 5,
    });
}
