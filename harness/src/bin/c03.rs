//! C03 — worker count never changes answers.
//! (1) translator cross-check: real CodeGenerator::contains_join (hook) on one tree per node kind,
//!     bare and over a join, vs the generated guard table;
//! (2) random IR trees x random databases through CodeGenerator::execute_with_config for
//!     num_workers in {1,2,3,4,8} (the model gets the real tuple hashes as a table);
//! (3) generated IQL programs (aggregation heads, distinct projections, computed columns, joins,
//!     negation, views) through IQLEngine::set_num_workers(n) for the same worker counts.
#[path = "../ir_common.rs"]
mod ir_common;
use inputlayer::code_generator::{CodeGenerator, ExecutionConfig};
use inputlayer::ir::{AggregateFunction, IRExpression, IRNode, Predicate};
use inputlayer::value::{Tuple, Value};
use inputlayer::{IQLEngine, OptimizationConfig};
use ir_common::*;
use std::collections::hash_map::DefaultHasher;
use std::hash::{Hash, Hasher};
use vharness::*;

const WORKERS: [usize; 5] = [1, 2, 3, 4, 8];

fn tuple_hash(t: &Tuple) -> u64 {
    // exactly what partition_data_for_worker does
    let mut hasher = DefaultHasher::new();
    t.hash(&mut hasher);
    hasher.finish()
}

fn exec_workers(ir: &IRNode, rels: &[(String, Vec<Tuple>)], n: usize) -> Result<Vec<Tuple>, String> {
    let mut cg = CodeGenerator::new();
    for (r, ts) in rels {
        cg.add_input(r.clone(), ts.clone());
    }
    let ir = ir.clone();
    match catch(std::panic::AssertUnwindSafe(move || cg.execute_with_config(&ir, ExecutionConfig::with_workers(n)))) {
        Ok(r) => r,
        Err(p) => Err(format!("panic: {}", p)),
    }
}

fn coq_runs(runs: &[(usize, Result<Vec<Tuple>, String>)]) -> String {
    let v: Vec<String> = runs.iter().map(|(n, r)| format!("({}, {})", coq_nat(*n), coq_result(r))).collect();
    coq_list(&v)
}
fn desc_runs(runs: &[(usize, Result<Vec<Tuple>, String>)]) -> Vec<String> {
    runs.iter()
        .map(|(n, r)| match r {
            Ok(v) => format!("workers={} -> {:?}", n, sorted(v.clone())),
            Err(e) => format!("workers={} -> ERR {}", n, e),
        })
        .collect()
}

fn emit_ir(sink: &mut Sink, rels: &[(String, Vec<Tuple>)], t: &IRNode, tags: &[&str]) {
    let g = CodeGenerator::verif_contains_join(t);
    let runs: Vec<(usize, Result<Vec<Tuple>, String>)> = WORKERS.iter().map(|n| (*n, exec_workers(t, rels, *n))).collect();
    let mut nm = Names::default();
    let Some(ct) = coq_ir(&mut nm, t) else {
        // constructs outside the model: property oracle only
        let coq = format!("C03Prog {}", coq_runs(&runs));
        sink.push(coq, serde_json::json!({"tree": format!("{:?}", t), "runs": desc_runs(&runs)}), tags, None);
        return;
    };
    // hash table: every base tuple -> hash mod 24 (24 = lcm of the worker counts, so
    // (hash mod 24) mod n = hash mod n)
    let mut table = vec![];
    for (_, ts) in rels {
        for tu in ts {
            table.push(format!("({}, {})", coq_tuple(tu), coq_nat((tuple_hash(tu) % 24) as usize)));
        }
    }
    let coq = format!("C03IR {} {} {} {} {}", coq_db(&mut nm, rels), coq_list(&table), ct, coq_bool(g), coq_runs(&runs));
    let n1 = runs[0].1.as_ref().map(|v| v.len()).unwrap_or(0);
    sink.tally(if g { "ir_guard:single-worker" } else { "ir_guard:partitioned" });
    sink.tally(&format!("ir_rows:{}", if n1 == 0 { "0" } else if n1 < 4 { "1-3" } else { "4+" }));
    // non-trivial: the partitioned path really ran (guard false) on a non-empty answer, or an
    // aggregate / join was kept on one worker with a non-empty answer
    let key = if n1 > 0 { Some(format!("ir {:?} {:?}", t, rels)) } else { None };
    sink.push(
        coq,
        serde_json::json!({"kind":"ir", "tree": format!("{:?}", t),
            "db": rels.iter().map(|(r, ts)| format!("{} = {:?}", r, ts)).collect::<Vec<_>>(),
            "contains_join": g, "runs": desc_runs(&runs),
            "how": "CodeGenerator::execute_with_config(ir, ExecutionConfig::with_workers(n))"}),
        tags,
        key,
    );
}

fn run_prog(src: &str, rels: &[(String, Vec<Tuple>)], n: usize, cfg_all_off: bool) -> Result<Vec<Tuple>, String> {
    let src = src.to_string();
    let rels = rels.to_vec();
    match catch(std::panic::AssertUnwindSafe(move || {
        let mut e = if cfg_all_off {
            IQLEngine::with_config(OptimizationConfig {
                enable_join_planning: false,
                enable_sip_rewriting: false,
                enable_subplan_sharing: false,
                enable_boolean_specialization: false,
                enable_magic_sets: false,
            })
        } else {
            IQLEngine::new()
        };
        for (r, ts) in &rels {
            e.add_tuples(r, ts.clone());
        }
        e.set_num_workers(n);
        e.execute_tuples(&src)
    })) {
        Ok(r) => r,
        Err(p) => Err(format!("panic: {}", p)),
    }
}

fn emit_prog(sink: &mut Sink, rels: &[(String, Vec<Tuple>)], src: &str, all_off: bool, tags: &[&str]) {
    let runs: Vec<(usize, Result<Vec<Tuple>, String>)> = WORKERS.iter().map(|n| (*n, run_prog(src, rels, *n, all_off))).collect();
    let n1 = runs[0].1.as_ref().map(|v| v.len()).unwrap_or(0);
    if runs[0].1.is_err() {
        sink.tally("prog:rejected");
    } else {
        sink.tally("prog:ok");
    }
    sink.tally(&format!("prog_rows:{}", if n1 == 0 { "0" } else if n1 < 4 { "1-3" } else { "4+" }));
    let key = if n1 > 0 { Some(format!("prog {} {} {:?}", all_off, src, rels)) } else { None };
    sink.push(
        format!("C03Prog {}", coq_runs(&runs)),
        serde_json::json!({"kind":"program", "program": src, "optimizations": if all_off {"all off"} else {"default"},
            "db": rels.iter().map(|(r, ts)| format!("{} = {:?}", r, ts)).collect::<Vec<_>>(),
            "runs": desc_runs(&runs),
            "how": "IQLEngine: add_tuples, set_num_workers(n), execute_tuples(program)"}),
        tags,
        key,
    );
}

fn gen_prog(r: &mut Rng) -> (String, &'static str) {
    // relations: r0(Int,Int) r1(Int,Int) r2(Int,Str,Int) r3(Int) r4(Str,Bool) r5(Int,Float)
    let base = *r.pick(&["r0(X, Y)", "r1(X, Y)", "r2(X, _, Y)", "r0(X, Y), Y > 0", "r1(X, Y), X != Y", "r5(X, F), r0(X, Y)"]);
    match r.below(12) {
        0 => (format!("q({}) <- {}", r.pick(&["count<X>", "count<Y>", "sum<Y>", "min<Y>", "max<X>"]), base), "agg-global"),
        1..=2 => (format!("q(X, {}) <- {}", r.pick(&["count<Y>", "sum<Y>", "min<Y>", "max<Y>"]), base), "agg-grouped"),
        3 => (format!("q(X) <- {}", base), "distinct-projection"),
        4 => (format!("q(Y) <- {}", base), "distinct-projection"),
        5 => (format!("q(X, Y, S) <- {}, S = X {} Y", base, r.pick(&["+", "-", "*"])), "computed"),
        6 => (format!("q(X, S) <- {}, S = Y + {}", base, r.range(0, 3)), "computed"),
        7 => ("q(X, Z) <- r0(X, Y), r1(Y, Z)".to_string(), "join"),
        8 => ("q(X) <- r3(X), !r1(X, _)".to_string(), "negation"),
        9 => (format!("v(X, Y) <- {}\nq(X, count<Y>) <- v(X, Y)", base), "view-then-agg"),
        10 => (format!("v(X, count<Y>) <- {}\nq(X, C) <- v(X, C), C > 1", base), "agg-then-filter"),
        _ => (format!("q(X, Y) <- {}\nq(X, Y) <- r1(Y, X)", base), "union"),
    }
}

fn main() {
    let args = parse_args();
    let mut rng = Rng::new(args.seed);
    let mut sink = Sink::new(&args, "From IL Require Import Checks.C03.", "c03case", "c03_check", 12);

    // ------------------------------------------------------------ (1) guard table cross-check
    {
        let s = |r: &str, n: usize| IRNode::Scan { relation: r.into(), schema: (0..n).map(|k| format!("{}{}", r, k)).collect() };
        let join = IRNode::Join {
            left: Box::new(s("r0", 2)),
            right: Box::new(s("r1", 2)),
            left_keys: vec![1],
            right_keys: vec![0],
            output_schema: vec!["a".into(), "b".into(), "c".into()],
        };
        let agg = |x: IRNode| IRNode::Aggregate { input: Box::new(x), group_by: vec![], aggregations: vec![(AggregateFunction::Count, 0)], output_schema: vec!["n".into()] };
        for (name, inner) in [("bare", s("r0", 2)), ("over-join", join.clone()), ("over-aggregate", agg(s("r0", 2)))] {
            let b = || Box::new(inner.clone());
            let trees: Vec<IRNode> = vec![
                inner.clone(),
                IRNode::Map { input: b(), projection: vec![0], output_schema: vec!["m".into()] },
                IRNode::Filter { input: b(), predicate: Predicate::ColumnGtConst(0, 0) },
                IRNode::Join { left: b(), right: Box::new(s("r3", 1)), left_keys: vec![0], right_keys: vec![0], output_schema: vec!["x".into(), "y".into()] },
                IRNode::Join { left: Box::new(s("r3", 1)), right: b(), left_keys: vec![0], right_keys: vec![0], output_schema: vec!["x".into(), "y".into()] },
                IRNode::Distinct { input: b() },
                IRNode::Union { inputs: vec![s("r3", 1), inner.clone()] },
                IRNode::Union { inputs: vec![] },
                agg(inner.clone()),
                IRNode::Antijoin { left: b(), right: Box::new(s("r3", 1)), left_keys: vec![0], right_keys: vec![0], output_schema: vec!["x".into()] },
                IRNode::Compute { input: b(), expressions: vec![("k".into(), IRExpression::IntConstant(1))] },
                IRNode::HnswScan { index_name: "i".into(), query: IRExpression::VectorLiteral(vec![1.0]), k: 1, ef_search: None, output_schema: vec!["id".into(), "d".into()] },
                IRNode::FlatMap { input: b(), projection: vec![0], filter_predicate: None, output_schema: vec!["m".into()] },
                IRNode::JoinFlatMap { left: b(), right: Box::new(s("r3", 1)), left_keys: vec![0], right_keys: vec![0], projection: vec![0], filter_predicate: None, output_schema: vec!["m".into()] },
            ];
            for t in trees {
                let g = CodeGenerator::verif_contains_join(&t);
                let mut nm = Names::default();
                let ct = coq_ir(&mut nm, &t).expect("guard trees are in the model");
                sink.tally("guard-table");
                sink.push(
                    format!("C03Guard {} {}", ct, coq_bool(g)),
                    serde_json::json!({"kind":"guard", "shape": name, "tree": format!("{:?}", t), "contains_join": g}),
                    &["guard-table"],
                    Some(format!("guard {:?}", t)),
                );
            }
        }
    }

    // ------------------------------------------------------------ corpus (DESIGN §9 row 7)
    let i = |x: i64| Value::Int64(x);
    let e5: Vec<Tuple> = (1..=5).map(|k| Tuple::new(vec![i(k), i(k * 10)])).collect();
    let rels0 = vec![("r0".to_string(), e5.clone()), ("r1".to_string(), vec![Tuple::new(vec![i(10), i(1)])])];
    emit_ir(
        &mut sink,
        &rels0,
        &IRNode::Aggregate {
            input: Box::new(IRNode::Scan { relation: "r0".into(), schema: vec!["X".into(), "Y".into()] }),
            group_by: vec![],
            aggregations: vec![(AggregateFunction::Count, 0)],
            output_schema: vec!["n".into()],
        },
        &["corpus", "aggregate"],
    );
    for src in ["q(count<X>) <- r0(X, Y)", "q(sum<Y>) <- r0(X, Y)", "q(X, count<Y>) <- r0(X, Y)", "q(X, Y) <- r0(X, Y)"] {
        emit_prog(&mut sink, &rels0, src, false, &["corpus", "program"]);
        emit_prog(&mut sink, &rels0, src, true, &["corpus", "program"]);
    }

    // ------------------------------------------------------------ random
    for case_no in 0..args.n {
        let db = gen_db(&mut rng);
        let rels = db_rels(&db);
        if case_no % 3 != 2 {
            let depth = rng.range(1, 4) as u32;
            let mut g = Gen::new(&mut rng, &db);
            g.allow_void = case_no % 7 == 3;
            g.no_combine = case_no % 3 == 0;
            let no_combine = g.no_combine;
            let (mut t, tys) = g.gen_tree(depth);
            if !no_combine && case_no % 6 == 1 && !tys.is_empty() {
                // an aggregate on top of a join-free plan: the shape the guard used to let through
                let mut g2 = Gen::new(&mut rng, &db);
                g2.no_combine = true;
                let (inner, ity) = g2.gen_tree(2);
                if !ity.is_empty() {
                    let f = rng.pick(&[AggregateFunction::Count, AggregateFunction::Sum, AggregateFunction::Max]).clone();
                    let gb: Vec<usize> = if rng.chance(1, 2) { vec![0] } else { vec![] };
                    let sch: Vec<String> = (0..gb.len() + 1).map(|k| format!("g{}", k)).collect();
                    t = IRNode::Aggregate { input: Box::new(inner), group_by: gb, aggregations: vec![(f, 0)], output_schema: sch };
                }
            }
            emit_ir(&mut sink, &rels, &t, &[if no_combine { "ir-tuplewise" } else { "ir-any" }]);
        } else {
            let (src, tag) = gen_prog(&mut rng);
            let all_off = rng.chance(1, 2);
            emit_prog(&mut sink, &rels, &src, all_off, &["program", tag]);
        }
    }
    sink.finish();
}
