//! C10 — session state is isolated.
//! Drives a real `Handler` with 2–3 sessions and session-less requests.
//!  (a) corpus: hand-written schedules (incl. the known finding and the repaired defect);
//!  (b) exhaustive: EVERY interleaving (at handler-call granularity) of small per-session operation
//!      lists, each interleaving executed sequentially on a fresh Handler;
//!  (c) stress: the per-session lists run free on real threads; the harness searches a
//!      linearisation (Wing–Gong) of the overlapping calls with a small sequential model of the
//!      restricted operation set, and emits the chosen linearisation (or, if none exists, the
//!      completion order) as a sequential schedule — the verdict is taken in Coq either way.
//! Emits cases for Checks/C10.v.
use inputlayer::protocol::{Handler, QueryResult, WireValue};
use inputlayer::value::{Tuple, Value};
use inputlayer::Config;
use std::collections::BTreeSet;
use std::sync::atomic::{AtomicU64, Ordering};
use std::sync::Arc;
use vharness::*;

const KG: &str = "k";
/// knowledge graphs: model id 0 = "k" (every session starts there), 1 = "k2"
const KGS: &[&str] = &["k", "k2"];
/// (model id, text, arity)
const NAMES: &[(u32, &str, usize)] = &[(0, "e", 2), (1, "f", 2), (3, "u", 1), (7, "t", 2), (10, "v", 2), (11, "w", 2), (12, "x", 2), (13, "s", 1)];
fn name_of(id: u32) -> (&'static str, usize) {
    for (i, n, a) in NAMES {
        if *i == id {
            return (n, *a);
        }
    }
    panic!("unknown name {id}")
}

#[derive(Clone, Debug)]
enum T {
    V(u32),
    #[allow(dead_code)]
    C(i64),
}
#[derive(Clone, Debug)]
struct A {
    rel: u32,
    args: Vec<T>,
}
#[derive(Clone, Debug)]
struct Cl {
    head: A,
    body: Vec<(bool, A)>,
}
/// `by`: the session (index) that issues a persistent operation, or None for a session-less request
#[derive(Clone, Debug)]
enum Op {
    // persistent operations: issued by session `by` (they go to the KG the session is bound to) or,
    // with `by: None`, by a session-less request against KG 0
    PInsert { by: Option<usize>, rel: u32, ts: Vec<Vec<i64>> },
    PDelete { by: Option<usize>, rel: u32, t: Vec<i64> },
    PRegister { by: Option<usize>, cl: Cl },
    PDrop { by: Option<usize>, name: u32 },
    PQuery { kg: usize, rel: u32 },
    SFact { s: usize, rel: u32, t: Vec<i64> },
    SRetract { s: usize, rel: u32, t: Vec<i64> },
    SRule { s: usize, cl: Cl },
    SClear { s: usize },
    SDropRules { s: usize, name: u32 },
    SDropIdx { s: usize, i: usize },
    SKgUse { s: usize, kg: usize },
    SQuery { s: usize, rel: u32 },
    SCount { s: usize, rel: u32 },
    SSchema { s: usize, rel: u32 },
}
impl Op {
    fn thread(&self) -> usize {
        // thread 0 = session-less requests, thread k+1 = session k
        match self {
            Op::PInsert { by, .. } | Op::PDelete { by, .. } | Op::PRegister { by, .. } | Op::PDrop { by, .. } => by.map_or(0, |b| b + 1),
            Op::PQuery { .. } => 0,
            Op::SFact { s, .. } | Op::SRetract { s, .. } | Op::SRule { s, .. } | Op::SClear { s } | Op::SDropRules { s, .. }
            | Op::SDropIdx { s, .. } | Op::SKgUse { s, .. }
            | Op::SQuery { s, .. } | Op::SCount { s, .. } | Op::SSchema { s, .. } => s + 1,
        }
    }
}

// ------------------------------------------------------------------ text
fn term_text(t: &T) -> String {
    match t {
        T::V(i) => format!("V{i}"),
        T::C(i) => format!("{i}"),
    }
}
fn atom_text(a: &A) -> String {
    let args: Vec<String> = a.args.iter().map(term_text).collect();
    format!("{}({})", name_of(a.rel).0, args.join(", "))
}
fn clause_text(c: &Cl) -> String {
    let body: Vec<String> = c.body.iter().map(|(n, a)| format!("{}{}", if *n { "!" } else { "" }, atom_text(a))).collect();
    format!("{} <- {}", atom_text(&c.head), body.join(", "))
}
fn tup_text(t: &[i64]) -> String {
    let v: Vec<String> = t.iter().map(|x| x.to_string()).collect();
    format!("({})", v.join(", "))
}
fn vars(ar: usize) -> String {
    (0..ar).map(|i| format!("V{i}")).collect::<Vec<_>>().join(", ")
}
fn op_text(o: &Op) -> String {
    let by = |b: &Option<usize>| b.map_or("no session".to_string(), |s| format!("session {}", s + 1));
    match o {
        Op::PInsert { by: b, rel, ts } => format!("[{}] +{}[{}]", by(b), name_of(*rel).0, ts.iter().map(|t| tup_text(t)).collect::<Vec<_>>().join(", ")),
        Op::PDelete { by: b, rel, t } => format!("[{}] -{}{}", by(b), name_of(*rel).0, tup_text(t)),
        Op::PRegister { by: b, cl } => format!("[{}] +{}", by(b), clause_text(cl)),
        Op::PDrop { by: b, name } => format!("[{}] -{}", by(b), name_of(*name).0),
        Op::PQuery { kg, rel } => format!("[no session, kg {}] ?{}({})", KGS[*kg], name_of(*rel).0, vars(name_of(*rel).1)),
        Op::SFact { s, rel, t } => format!("[session {}] {}{}", s + 1, name_of(*rel).0, tup_text(t)),
        Op::SRetract { s, rel, t } => format!("[session {}] session_retract_ephemeral {}{}", s + 1, name_of(*rel).0, tup_text(t)),
        Op::SRule { s, cl } => format!("[session {}] {}", s + 1, clause_text(cl)),
        Op::SClear { s } => format!("[session {}] .session clear", s + 1),
        Op::SDropRules { s, name } => format!("[session {}] .session drop {}", s + 1, name_of(*name).0),
        Op::SDropIdx { s, i } => format!("[session {}] .session drop {}", s + 1, i + 1),
        Op::SKgUse { s, kg } => format!("[session {}] .kg use {}", s + 1, KGS[*kg]),
        Op::SQuery { s, rel } => format!("[session {}] ?{}({})", s + 1, name_of(*rel).0, vars(name_of(*rel).1)),
        Op::SCount { s, rel } => format!("[session {}] count of {}", s + 1, name_of(*rel).0),
        Op::SSchema { s, rel } => format!("[session {}] {}(id: int, name: string)", s + 1, name_of(*rel).0),
    }
}

// ------------------------------------------------------------------ Coq terms
fn tup_coq(t: &[i64]) -> String {
    let v: Vec<String> = t.iter().map(|x| format!("(VI64 {})", coq_z(*x as i128))).collect();
    coq_list(&v)
}
fn atom_coq(a: &A) -> String {
    let args: Vec<String> = a
        .args
        .iter()
        .map(|t| match t {
            T::V(i) => format!("(TVar {})", coq_n(*i as u128)),
            T::C(c) => format!("(TConst (VI64 {}))", coq_z(*c as i128)),
        })
        .collect();
    format!("(mkAtom {} {})", coq_n(a.rel as u128), coq_list(&args))
}
fn clause_coq(c: &Cl) -> String {
    let body: Vec<String> = c.body.iter().map(|(n, a)| format!("({} {})", if *n { "LNeg" } else { "LPos" }, atom_coq(a))).collect();
    format!("(mkClause {} {})", atom_coq(&c.head), coq_list(&body))
}
/// `kg`: the knowledge graph a persistent operation went to (the issuing session's binding as
/// tracked by the harness, or 0 for session-less requests)
fn op_coq(o: &Op, acc: bool, kg: usize) -> String {
    let sid = |s: &usize| coq_n(*s as u128 + 1);
    let kgc = coq_n(kg as u128);
    match o {
        Op::PInsert { rel, ts, .. } => format!("(PInsert {} {} {})", kgc, coq_n(*rel as u128), coq_list(&ts.iter().map(|t| tup_coq(t)).collect::<Vec<_>>())),
        Op::PDelete { rel, t, .. } => format!("(PDelete {} {} [{}])", kgc, coq_n(*rel as u128), tup_coq(t)),
        Op::PRegister { cl, .. } => format!("(PRegister {} {} {} {})", kgc, coq_n(cl.head.rel as u128), clause_coq(cl), coq_bool(acc)),
        Op::PDrop { name, .. } => format!("(PDrop {} {})", kgc, coq_n(*name as u128)),
        Op::PQuery { kg, rel } => format!("(PQuery {} {})", coq_n(*kg as u128), coq_n(*rel as u128)),
        Op::SFact { s, rel, t } => format!("(SFact {} {} {})", sid(s), coq_n(*rel as u128), tup_coq(t)),
        Op::SRetract { s, rel, t } => format!("(SRetract {} {} [{}])", sid(s), coq_n(*rel as u128), tup_coq(t)),
        Op::SRule { s, cl } => format!("(SRule {} {} {})", sid(s), clause_coq(cl), coq_bool(acc)),
        Op::SClear { s } => format!("(SClear {})", sid(s)),
        Op::SDropRules { s, name } => format!("(SDropRules {} {})", sid(s), coq_n(*name as u128)),
        Op::SDropIdx { s, i } => format!("(SDropIdx {} {})", sid(s), coq_nat(*i)),
        Op::SKgUse { s, kg } => format!("(SKgUse {} {})", sid(s), coq_n(*kg as u128)),
        Op::SQuery { s, rel } => format!("(SQuery {} {})", sid(s), coq_n(*rel as u128)),
        Op::SCount { s, rel } => format!("(SCount {} {})", sid(s), coq_n(*rel as u128)),
        Op::SSchema { s, rel } => format!("(SSchema {} {} [CInt; CStr])", sid(s), coq_n(*rel as u128)),
    }
}

// ------------------------------------------------------------------ driving the real handler
#[derive(Clone, Debug, PartialEq)]
enum Obs {
    Ans(Vec<Vec<Value>>),
    Err(String),
    None,
}
fn rows_of(q: &QueryResult) -> Obs {
    if q.schema.len() == 1 && q.schema[0].name == "message" {
        return Obs::Err(format!("message instead of rows: {:?}", q.rows.first().map(|r| &r.values)));
    }
    let mut rows: Vec<Vec<Value>> = q
        .rows
        .iter()
        .map(|r| {
            r.values
                .iter()
                .map(|v| match v {
                    WireValue::Int64(i) => Value::Int64(*i),
                    WireValue::Int32(i) => Value::Int32(*i),
                    WireValue::String(s) => Value::String(s.as_str().into()),
                    WireValue::Bool(b) => Value::Bool(*b),
                    WireValue::Float64(f) => Value::Float64(*f),
                    WireValue::Timestamp(t) => Value::Timestamp(*t),
                    _ => Value::Null,
                })
                .collect()
        })
        .collect();
    rows.sort();
    rows.dedup();
    Obs::Ans(rows)
}
fn obs_coq(o: &Obs) -> String {
    match o {
        Obs::Ans(rows) => {
            let ts: Vec<Tuple> = rows.iter().map(|r| Tuple::new(r.clone())).collect();
            format!("(OAns {})", coq_tuples(&ts))
        }
        Obs::Err(_) => "OErr".to_string(),
        Obs::None => "ONone".to_string(),
    }
}
fn obs_json(o: &Obs) -> serde_json::Value {
    match o {
        Obs::Ans(rows) => serde_json::json!(rows
            .iter()
            .map(|r| format!("({})", r.iter().map(|v| match v { Value::Int64(i) => i.to_string(), o => format!("{o:?}") }).collect::<Vec<_>>().join(",")))
            .collect::<Vec<_>>()),
        Obs::Err(e) => serde_json::json!({ "error": e }),
        Obs::None => serde_json::Value::Null,
    }
}

struct World {
    handler: Handler,
    sids: Vec<String>,
    _tmp: tempfile::TempDir,
}
fn mk_world(nsessions: usize) -> World {
    let tmp = tempfile::tempdir().expect("tempdir");
    let mut config = Config::default();
    config.storage.data_dir = tmp.path().to_path_buf();
    config.storage.auto_create_knowledge_graphs = true;
    let handler = Handler::from_config(config).expect("handler");
    for k in KGS {
        handler.get_storage().ensure_knowledge_graph(k).expect("kg");
    }
    let sids = (0..nsessions).map(|_| handler.create_session(KG).expect("session")).collect();
    World { handler, sids, _tmp: tmp }
}

/// One handler call. Returns (observation, accepted).
async fn exec(w: &World, o: &Op) -> (Obs, bool) {
    let h = &w.handler;
    let run = |by: Option<usize>, text: String| async move {
        match by {
            Some(s) => h.execute_program(Some(&w.sids[s]), None, text, None).await,
            None => h.execute_program(None, Some(KG.to_string()), text, None).await,
        }
    };
    match o {
        Op::PInsert { by, rel, ts } => {
            let text = format!("+{}[{}]", name_of(*rel).0, ts.iter().map(|t| tup_text(t)).collect::<Vec<_>>().join(", "));
            let r = run(*by, text).await;
            (Obs::None, r.is_ok())
        }
        Op::PDelete { by, rel, t } => {
            let r = run(*by, format!("-{}{}", name_of(*rel).0, tup_text(t))).await;
            (Obs::None, r.is_ok())
        }
        Op::PRegister { by, cl } => {
            let r = run(*by, format!("+{}", clause_text(cl))).await;
            let ok = match &r {
                Ok(q) => q.rows.iter().any(|row| matches!(row.values.first(), Some(WireValue::String(s)) if s.contains("registered"))),
                Err(_) => false,
            };
            (Obs::None, ok)
        }
        Op::PDrop { by, name } => {
            let r = run(*by, format!("-{}", name_of(*name).0)).await;
            (Obs::None, r.is_ok())
        }
        Op::PQuery { kg, rel } => {
            let (n, ar) = name_of(*rel);
            match h.execute_program(None, Some(KGS[*kg].to_string()), format!("?{}({})", n, vars(ar)), None).await {
                Ok(q) => (rows_of(&q), true),
                Err(e) => (Obs::Err(e), false),
            }
        }
        Op::SFact { s, rel, t } => {
            let r = run(Some(*s), format!("{}{}", name_of(*rel).0, tup_text(t))).await;
            (Obs::None, r.is_ok())
        }
        Op::SRetract { s, rel, t } => {
            let tuple = Tuple::new(t.iter().map(|x| Value::Int64(*x)).collect());
            let r = h.session_retract_ephemeral(&w.sids[*s], name_of(*rel).0, vec![tuple]);
            (Obs::None, r.is_ok())
        }
        Op::SRule { s, cl } => {
            let r = run(Some(*s), clause_text(cl)).await;
            (Obs::None, r.is_ok())
        }
        Op::SClear { s } => {
            let r = run(Some(*s), ".session clear".to_string()).await;
            (Obs::None, r.is_ok())
        }
        Op::SDropRules { s, name } => {
            let r = run(Some(*s), format!(".session drop {}", name_of(*name).0)).await;
            (Obs::None, r.is_ok())
        }
        Op::SDropIdx { s, i } => {
            let r = run(Some(*s), format!(".session drop {}", i + 1)).await;
            (Obs::None, r.is_ok())
        }
        Op::SKgUse { s, kg } => {
            let r = run(Some(*s), format!(".kg use {}", KGS[*kg])).await;
            (Obs::None, r.is_ok())
        }
        Op::SQuery { s, rel } => {
            let (n, ar) = name_of(*rel);
            match run(Some(*s), format!("?{}({})", n, vars(ar))).await {
                Ok(q) => (rows_of(&q), true),
                Err(e) => (Obs::Err(e), false),
            }
        }
        Op::SCount { s, rel } => {
            // one-shot aggregate in the session's view, without changing the session:
            // dirty session -> query_program_with_session runs `session rules ++ this rule` on
            // snapshot ⊎ session facts; clean session -> the same rule as a request-local rule
            let (n, ar) = name_of(*rel);
            let rule = format!("c10cnt(count<V0>) <- {}({})", n, vars(ar));
            let clean = h.session_manager().is_session_clean(&w.sids[*s]).unwrap_or(true);
            let r = if clean {
                let kg = h.session_manager().session_kg(&w.sids[*s]).unwrap_or_else(|_| KG.to_string());
                h.query_program(Some(kg), format!("{rule}\n?c10cnt(N)")).await
            } else {
                h.query_program_with_session(&w.sids[*s], rule).await
            };
            match r {
                Ok(q) => (rows_of(&q), true),
                Err(e) => (Obs::Err(e), false),
            }
        }
        Op::SSchema { s, rel } => {
            let r = run(Some(*s), format!("{}(id: int, name: string)", name_of(*rel).0)).await;
            (Obs::None, r.is_ok())
        }
    }
}

struct Outcome {
    coq: String,
    desc: serde_json::Value,
    tags: Vec<&'static str>,
    key: Option<String>,
    tallies: Vec<String>,
}
fn finish_case(kind: &'static str, extra_tags: &[&'static str], steps: &[(Op, Obs, bool)], note: serde_json::Value) -> Outcome {
    // the KG every session is bound to, as the harness tracks it (a successful `.kg use` moves it)
    let mut cur: std::collections::BTreeMap<usize, usize> = Default::default();
    let mut coq_steps: Vec<String> = vec![];
    for (o, ob, acc) in steps {
        let kg = match o {
            Op::PInsert { by: Some(s), .. } | Op::PDelete { by: Some(s), .. } | Op::PRegister { by: Some(s), .. } | Op::PDrop { by: Some(s), .. } => *cur.get(s).unwrap_or(&0),
            _ => 0,
        };
        coq_steps.push(format!("({}, {})", op_coq(o, *acc, kg), obs_coq(ob)));
        if let Op::SKgUse { s, kg } = o {
            if *acc {
                cur.insert(*s, *kg);
            }
        }
    }
    let desc_steps: Vec<serde_json::Value> =
        steps.iter().map(|(o, ob, acc)| serde_json::json!({"call": op_text(o), "accepted": acc, "answer": obs_json(ob)})).collect();
    let mut tallies = vec![format!("kind:{kind}"), format!("len:{}", steps.len() / 4 * 4)];
    for (o, _, _) in steps {
        tallies.push(format!(
            "op:{}",
            match o {
                Op::PInsert { .. } => "persistent-insert",
                Op::PDelete { .. } => "persistent-delete",
                Op::PRegister { .. } => "persistent-rule",
                Op::PDrop { .. } => "persistent-drop-rule",
                Op::PQuery { .. } => "sessionless-query",
                Op::SFact { .. } => "session-fact",
                Op::SRetract { .. } => "session-retract",
                Op::SRule { .. } => "session-rule",
                Op::SClear { .. } => "session-clear",
                Op::SDropRules { .. } => "session-drop-rules",
                Op::SDropIdx { .. } => "session-drop-index",
                Op::SKgUse { .. } => "session-kg-use",
                Op::SQuery { .. } => "session-query",
                Op::SCount { .. } => "session-count",
                Op::SSchema { .. } => "session-schema",
            }
        ));
    }
    // non-trivial: at least two different sessions got a non-empty query answer, some session
    // holds ephemeral state at that time, and a persistent write happened somewhere
    let mut answered: BTreeSet<usize> = BTreeSet::new();
    let mut dirty = false;
    let mut pwrite = false;
    for (o, ob, _) in steps {
        match o {
            Op::SFact { .. } | Op::SRule { .. } => dirty = true,
            Op::PInsert { .. } | Op::PDelete { .. } | Op::PRegister { .. } | Op::PDrop { .. } => pwrite = true,
            Op::SQuery { s, .. } | Op::SCount { s, .. } => {
                if matches!(ob, Obs::Ans(r) if !r.is_empty()) {
                    answered.insert(*s);
                }
            }
            _ => {}
        }
    }
    let nontrivial = answered.len() >= 2 && dirty && pwrite;
    let key = if nontrivial { Some(steps.iter().map(|(o, _, _)| op_text(o)).collect::<Vec<_>>().join(" ; ")) } else { None };
    let mut tags = vec![kind];
    tags.extend_from_slice(extra_tags);
    Outcome {
        coq: format!("C10Case {}", coq_list(&coq_steps)),
        desc: serde_json::json!({"kind": kind, "schedule": desc_steps, "note": note,
            "replay": "Handler::from_config(Config::default with temp data_dir, auto_create_knowledge_graphs), KG \"k\", one create_session per session; \
                       issue the calls in this order through Handler::execute_program (session calls with Some(session id), others with Some(\"k\"))"}),
        tags,
        key,
        tallies,
    }
}

async fn run_sequential(kind: &'static str, tags: &[&'static str], nsessions: usize, sched: &[Op], note: serde_json::Value) -> Outcome {
    let w = mk_world(nsessions);
    let mut steps = vec![];
    for o in sched {
        let (ob, acc) = exec(&w, o).await;
        steps.push((o.clone(), ob, acc));
    }
    finish_case(kind, tags, &steps, note)
}

// ------------------------------------------------------------------ schedules
fn v(i: u32) -> T {
    T::V(i)
}
fn copy(h: u32, b: u32) -> Cl {
    Cl { head: A { rel: h, args: vec![v(0), v(1)] }, body: vec![(false, A { rel: b, args: vec![v(0), v(1)] })] }
}
fn swap(h: u32, b: u32) -> Cl {
    Cl { head: A { rel: h, args: vec![v(0), v(1)] }, body: vec![(false, A { rel: b, args: vec![v(1), v(0)] })] }
}
fn minus(h: u32, b: u32, n: u32) -> Cl {
    Cl { head: A { rel: h, args: vec![v(0), v(1)] }, body: vec![(false, A { rel: b, args: vec![v(0), v(1)] }), (true, A { rel: n, args: vec![v(0), v(1)] })] }
}
fn proj(h: u32, b: u32) -> Cl {
    Cl { head: A { rel: h, args: vec![v(0)] }, body: vec![(false, A { rel: b, args: vec![v(0), v(1)] })] }
}
fn tc_step(h: u32, b: u32) -> Cl {
    Cl { head: A { rel: h, args: vec![v(0), v(2)] }, body: vec![(false, A { rel: h, args: vec![v(0), v(1)] }), (false, A { rel: b, args: vec![v(1), v(2)] })] }
}
fn final_observations(nsessions: usize, rels: &[u32]) -> Vec<Op> {
    let mut ops = vec![];
    for r in rels {
        for s in 0..nsessions {
            ops.push(Op::SQuery { s, rel: *r });
        }
        ops.push(Op::PQuery { kg: 0, rel: *r });
    }
    ops.push(Op::PQuery { kg: 1, rel: 0 });
    ops.push(Op::PQuery { kg: 1, rel: 10 });
    for s in 0..nsessions {
        ops.push(Op::SCount { s, rel: 0 });
    }
    ops
}

fn corpus() -> Vec<(&'static str, &'static [&'static str], usize, Vec<Op>)> {
    use Op::*;
    vec![
        // the known finding: session 1's transient schema makes session 2's and the session-less insert fail
        ("corpus-session-schema", &["known-session-schema"], 2, vec![
            SSchema { s: 0, rel: 7 }, PInsert { by: Some(1), rel: 7, ts: vec![vec![1, 2]] }, PInsert { by: None, rel: 7, ts: vec![vec![3, 4]] },
            SQuery { s: 1, rel: 7 }, PQuery { kg: 0, rel: 7 }, SQuery { s: 0, rel: 7 }]),
        // the repaired defect: a session fact equal to a stored fact must count once
        ("corpus-duplicate-fact-count", &[], 2, vec![
            PInsert { by: None, rel: 0, ts: vec![vec![1, 2], vec![2, 3]] }, SFact { s: 0, rel: 0, t: vec![1, 2] }, SFact { s: 0, rel: 0, t: vec![5, 6] },
            SFact { s: 0, rel: 0, t: vec![5, 6] }, SCount { s: 0, rel: 0 }, SCount { s: 1, rel: 0 }, SQuery { s: 0, rel: 0 }, SQuery { s: 1, rel: 0 }, PQuery { kg: 0, rel: 0 }]),
        // a cleared rule must not come back: rule, `.session clear`, dirty again (a clean session takes
        // the fast path), query; same with `.session drop 1` and `.session drop w`
        ("corpus-clear-then-dirty", &[], 2, vec![
            PInsert { by: None, rel: 0, ts: vec![vec![1, 2]] }, SRule { s: 0, cl: copy(11, 0) }, SFact { s: 0, rel: 0, t: vec![3, 4] }, SQuery { s: 0, rel: 11 },
            SClear { s: 0 }, SQuery { s: 0, rel: 11 }, SFact { s: 0, rel: 0, t: vec![5, 6] }, SQuery { s: 0, rel: 11 }, SQuery { s: 0, rel: 0 }, SCount { s: 0, rel: 0 },
            SRule { s: 0, cl: swap(11, 0) }, SQuery { s: 0, rel: 11 }, SDropIdx { s: 0, i: 0 }, SQuery { s: 0, rel: 11 },
            SRule { s: 0, cl: copy(11, 0) }, SRule { s: 0, cl: copy(12, 0) }, SDropRules { s: 0, name: 11 }, SQuery { s: 0, rel: 11 }, SQuery { s: 0, rel: 12 },
            SDropIdx { s: 0, i: 5 }, SQuery { s: 1, rel: 11 }, SQuery { s: 1, rel: 12 }]),
        // the KG switch clears the session: rule + fact in k, `.kg use k2`, dirty again, query in k2
        ("corpus-kg-switch", &[], 2, vec![
            PInsert { by: None, rel: 0, ts: vec![vec![1, 2]] }, SKgUse { s: 1, kg: 1 }, PInsert { by: Some(1), rel: 0, ts: vec![vec![8, 9]] }, PRegister { by: Some(1), cl: copy(10, 0) },
            SRule { s: 0, cl: copy(11, 0) }, SFact { s: 0, rel: 0, t: vec![3, 4] }, SQuery { s: 0, rel: 11 }, SKgUse { s: 0, kg: 1 }, SQuery { s: 0, rel: 11 },
            SFact { s: 0, rel: 0, t: vec![6, 6] }, SQuery { s: 0, rel: 11 }, SQuery { s: 0, rel: 0 }, SQuery { s: 0, rel: 10 }, SCount { s: 0, rel: 0 },
            SQuery { s: 1, rel: 0 }, PQuery { kg: 0, rel: 0 }, PQuery { kg: 1, rel: 0 }, PQuery { kg: 0, rel: 10 }, SKgUse { s: 0, kg: 0 }, SFact { s: 0, rel: 0, t: vec![7, 7] },
            SQuery { s: 0, rel: 0 }, SQuery { s: 0, rel: 11 }, PInsert { by: Some(0), rel: 0, ts: vec![vec![2, 2]] }, PQuery { kg: 0, rel: 0 }, PQuery { kg: 1, rel: 0 }]),
        // two sessions, different ephemeral facts under one persistent rule, session rule over the persistent rule
        ("corpus-two-clients", &[], 2, vec![
            PInsert { by: None, rel: 0, ts: vec![vec![10, 20]] }, PRegister { by: None, cl: copy(10, 0) }, SFact { s: 0, rel: 0, t: vec![1, 2] },
            SFact { s: 1, rel: 0, t: vec![3, 4] }, SRule { s: 1, cl: swap(11, 10) }, SQuery { s: 0, rel: 10 }, SQuery { s: 1, rel: 10 },
            SQuery { s: 0, rel: 11 }, SQuery { s: 1, rel: 11 }, PQuery { kg: 0, rel: 10 }, PQuery { kg: 0, rel: 11 }, PInsert { by: Some(0), rel: 0, ts: vec![vec![7, 8]] },
            SQuery { s: 1, rel: 11 }, SRetract { s: 1, rel: 0, t: vec![3, 4] }, SQuery { s: 1, rel: 11 }, SClear { s: 1 }, SQuery { s: 1, rel: 11 }, SQuery { s: 0, rel: 10 }]),
        // session rule with the head of a persistent rule (union), negation over session facts, recursion in a session
        ("corpus-session-rules", &[], 3, vec![
            PInsert { by: None, rel: 0, ts: vec![vec![1, 2], vec![2, 3]] }, PInsert { by: None, rel: 1, ts: vec![vec![2, 3]] }, PRegister { by: Some(2), cl: copy(10, 0) },
            SRule { s: 0, cl: swap(10, 0) }, SRule { s: 1, cl: minus(11, 0, 1) }, SFact { s: 1, rel: 1, t: vec![1, 2] }, SRule { s: 2, cl: copy(12, 0) }, SRule { s: 2, cl: tc_step(12, 0) },
            SQuery { s: 0, rel: 10 }, SQuery { s: 1, rel: 10 }, SQuery { s: 1, rel: 11 }, SQuery { s: 0, rel: 11 }, SQuery { s: 2, rel: 12 }, SQuery { s: 0, rel: 12 },
            SDropRules { s: 0, name: 10 }, SQuery { s: 0, rel: 10 }, PDrop { by: Some(1), name: 10 }, SQuery { s: 0, rel: 10 }, SQuery { s: 2, rel: 12 },
            PDelete { by: Some(0), rel: 0, t: vec![1, 2] }, SQuery { s: 2, rel: 12 }, SQuery { s: 1, rel: 11 }, SRule { s: 0, cl: proj(13, 0) }, SQuery { s: 0, rel: 13 }, SQuery { s: 1, rel: 13 }]),
    ]
}

/// all interleavings of the given lists (order inside each list kept)
fn interleavings(lists: &[Vec<Op>]) -> Vec<Vec<Op>> {
    fn go(lists: &[Vec<Op>], pos: &mut Vec<usize>, cur: &mut Vec<Op>, out: &mut Vec<Vec<Op>>) {
        let mut done = true;
        for i in 0..lists.len() {
            if pos[i] < lists[i].len() {
                done = false;
                cur.push(lists[i][pos[i]].clone());
                pos[i] += 1;
                go(lists, pos, cur, out);
                pos[i] -= 1;
                cur.pop();
            }
        }
        if done {
            out.push(cur.clone());
        }
    }
    let mut out = vec![];
    go(lists, &mut vec![0; lists.len()], &mut vec![], &mut out);
    out
}

fn small_tuple(r: &mut Rng) -> Vec<i64> {
    vec![r.range(1, 3), r.range(1, 3)]
}
/// a short session-local operation list for session s (ephemeral inserts/retracts/rules/queries)
fn gen_session_list(r: &mut Rng, s: usize, len: usize, with_persistent: bool) -> Vec<Op> {
    let mut ops = vec![];
    let mut have_rule = false;
    for _ in 0..len {
        let roll = r.below(100);
        let op = if roll < 25 {
            Op::SFact { s, rel: 0, t: small_tuple(r) }
        } else if roll < 32 {
            Op::SRetract { s, rel: 0, t: small_tuple(r) }
        } else if roll < 47 && !have_rule {
            have_rule = true;
            // session rules: over the base relation or over the persistent rule v, possibly with v's own head
            match r.below(4) {
                0 => Op::SRule { s, cl: swap(11, 0) },
                1 => Op::SRule { s, cl: copy(11, 10) },
                2 => Op::SRule { s, cl: swap(10, 0) },
                _ => Op::SRule { s, cl: minus(11, 0, 1) },
            }
        } else if roll < 49 {
            // malformed: unsafe session rules, rejected by the handler's validation
            if r.chance(1, 2) {
                Op::SRule { s, cl: Cl { head: A { rel: 11, args: vec![v(0), v(9)] }, body: vec![(false, A { rel: 0, args: vec![v(0), v(1)] })] } }
            } else {
                Op::SRule { s, cl: Cl { head: A { rel: 11, args: vec![v(0), v(1)] }, body: vec![(false, A { rel: 0, args: vec![v(0), v(1)] }), (true, A { rel: 11, args: vec![v(0), v(1)] })] } }
            }
        } else if roll < 52 {
            have_rule = false;
            Op::SClear { s }
        } else if roll < 56 {
            have_rule = false;
            Op::SDropRules { s, name: *r.pick(&[10u32, 11]) }
        } else if roll < 58 {
            have_rule = false;
            Op::SDropIdx { s, i: r.below(2) as usize }
        } else if roll < 61 {
            have_rule = false;
            Op::SKgUse { s, kg: r.below(2) as usize }
        } else if roll < 64 {
            Op::SCount { s, rel: 0 }
        } else if roll < 72 && with_persistent {
            match r.below(4) {
                0 => Op::PInsert { by: Some(s), rel: 0, ts: vec![small_tuple(r)] },
                1 => Op::PDelete { by: Some(s), rel: 0, t: small_tuple(r) },
                2 => Op::PInsert { by: Some(s), rel: 1, ts: vec![small_tuple(r)] },
                _ => Op::PRegister { by: Some(s), cl: copy(10, 0) },
            }
        } else {
            Op::SQuery { s, rel: *r.pick(&[0u32, 10, 11, 11]) }
        };
        ops.push(op);
    }
    ops
}
fn gen_writer_list(r: &mut Rng, len: usize) -> Vec<Op> {
    (0..len)
        .map(|_| match r.below(10) {
            0..=3 => Op::PInsert { by: None, rel: 0, ts: vec![small_tuple(r)] },
            4..=5 => Op::PDelete { by: None, rel: 0, t: small_tuple(r) },
            6 => Op::PRegister { by: None, cl: copy(10, 0) },
            7 => Op::PDrop { by: None, name: 10 },
            8 => Op::PInsert { by: None, rel: 1, ts: vec![small_tuple(r)] },
            _ => Op::PQuery { kg: 0, rel: *r.pick(&[0u32, 10]) },
        })
        .collect()
}

// ------------------------------------------------------------------ stress: free-running threads + linearisation search
/// sequential model of the restricted stress operation set: relation e, persistent rule v = copy of e,
/// session rule w = swap of e
#[derive(Clone, Default)]
struct Mini {
    pe: BTreeSet<(i64, i64)>,
    v_rule: bool,
    se: Vec<BTreeSet<(i64, i64)>>,
    w_rule: Vec<bool>,
}
impl Mini {
    fn seen(&self, s: Option<usize>) -> BTreeSet<(i64, i64)> {
        let mut x = self.pe.clone();
        if let Some(s) = s {
            x.extend(self.se[s].iter().cloned());
        }
        x
    }
    /// apply; for queries return the expected rows
    fn apply(&mut self, o: &Op) -> Option<Vec<Vec<Value>>> {
        let rows = |x: BTreeSet<(i64, i64)>| -> Vec<Vec<Value>> {
            let mut r: Vec<Vec<Value>> = x.into_iter().map(|(a, b)| vec![Value::Int64(a), Value::Int64(b)]).collect();
            r.sort();
            r
        };
        match o {
            Op::PInsert { rel: 0, ts, .. } => {
                for t in ts {
                    self.pe.insert((t[0], t[1]));
                }
                None
            }
            Op::PDelete { rel: 0, t, .. } => {
                self.pe.remove(&(t[0], t[1]));
                None
            }
            Op::PRegister { .. } => {
                self.v_rule = true;
                None
            }
            Op::PDrop { .. } => {
                self.v_rule = false;
                None
            }
            Op::SFact { s, t, .. } => {
                self.se[*s].insert((t[0], t[1]));
                None
            }
            Op::SRetract { s, t, .. } => {
                self.se[*s].remove(&(t[0], t[1]));
                None
            }
            Op::SRule { s, .. } => {
                self.w_rule[*s] = true;
                None
            }
            Op::SClear { s } => {
                self.se[*s].clear();
                self.w_rule[*s] = false;
                None
            }
            Op::PQuery { rel, .. } => Some(match rel {
                0 => rows(self.seen(None)),
                10 if self.v_rule => rows(self.seen(None)),
                _ => vec![],
            }),
            Op::SQuery { s, rel } => Some(match rel {
                0 => rows(self.seen(Some(*s))),
                10 if self.v_rule => rows(self.seen(Some(*s))),
                11 if self.w_rule[*s] => rows(self.seen(Some(*s)).into_iter().map(|(a, b)| (b, a)).collect()),
                _ => vec![],
            }),
            Op::SCount { s, .. } => {
                let n = self.seen(Some(*s)).len();
                Some(if n == 0 { vec![] } else { vec![vec![Value::Int64(n as i64)]] })
            }
            _ => None,
        }
    }
}
fn gen_stress_list(r: &mut Rng, s: usize, len: usize) -> Vec<Op> {
    (0..len)
        .map(|_| match r.below(100) {
            0..=19 => Op::SFact { s, rel: 0, t: small_tuple(r) },
            20..=25 => Op::SRetract { s, rel: 0, t: small_tuple(r) },
            26..=33 => Op::SRule { s, cl: swap(11, 0) },
            34..=36 => Op::SClear { s },
            37..=46 => Op::PInsert { by: Some(s), rel: 0, ts: vec![small_tuple(r)] },
            47..=52 => Op::PDelete { by: Some(s), rel: 0, t: small_tuple(r) },
            53..=56 => Op::PRegister { by: Some(s), cl: copy(10, 0) },
            57..=58 => Op::PDrop { by: Some(s), name: 10 },
            59..=66 => Op::SCount { s, rel: 0 },
            _ => Op::SQuery { s, rel: *r.pick(&[0u32, 10, 11]) },
        })
        .collect()
}
struct Call {
    op: Op,
    obs: Obs,
    acc: bool,
    inv: u64,
    ret: u64,
}
/// Wing–Gong: find an order extending real-time precedence (a.ret < b.inv) in which the sequential
/// model gives every observed query answer.  Returns the order as indices into `calls`.
fn linearise(calls: &[Call], nsessions: usize) -> Option<Vec<usize>> {
    fn go(calls: &[Call], done: &mut Vec<bool>, order: &mut Vec<usize>, m: &Mini, seen_states: &mut std::collections::HashSet<(Vec<bool>, String)>) -> bool {
        if order.len() == calls.len() {
            return true;
        }
        let key = (done.clone(), format!("{:?}{:?}{:?}{:?}", m.pe, m.v_rule, m.se, m.w_rule));
        if !seen_states.insert(key) {
            return false;
        }
        for i in 0..calls.len() {
            if done[i] {
                continue;
            }
            // minimal: no other pending call returned before this one was invoked
            if (0..calls.len()).any(|j| j != i && !done[j] && calls[j].ret < calls[i].inv) {
                continue;
            }
            let mut m2 = m.clone();
            let expect = m2.apply(&calls[i].op);
            let ok = match (&expect, &calls[i].obs) {
                (Some(rows), Obs::Ans(got)) => rows == got,
                (Some(_), _) => false,
                (None, _) => true,
            };
            if !ok {
                continue;
            }
            done[i] = true;
            order.push(i);
            if go(calls, done, order, &m2, seen_states) {
                return true;
            }
            order.pop();
            done[i] = false;
        }
        false
    }
    let m = Mini { se: vec![BTreeSet::new(); nsessions], w_rule: vec![false; nsessions], ..Default::default() };
    let mut order = vec![];
    let mut seen = std::collections::HashSet::new();
    if go(calls, &mut vec![false; calls.len()], &mut order, &m, &mut seen) {
        Some(order)
    } else {
        None
    }
}
async fn run_stress(lists: Vec<Vec<Op>>) -> Outcome {
    let nsessions = lists.len();
    let w = Arc::new(mk_world(nsessions));
    let clock = Arc::new(AtomicU64::new(0));
    let mut handles = vec![];
    for list in lists {
        let w = Arc::clone(&w);
        let clock = Arc::clone(&clock);
        handles.push(tokio::spawn(async move {
            let mut out = vec![];
            for o in list {
                let inv = clock.fetch_add(1, Ordering::SeqCst);
                let (obs, acc) = exec(&w, &o).await;
                let ret = clock.fetch_add(1, Ordering::SeqCst);
                out.push(Call { op: o, obs, acc, inv, ret });
            }
            out
        }));
    }
    let mut calls: Vec<Call> = vec![];
    for h in handles {
        calls.extend(h.await.expect("stress task"));
    }
    let overlaps = (0..calls.len())
        .map(|i| (0..calls.len()).filter(|j| *j != i && calls[*j].inv < calls[i].ret && calls[i].inv < calls[*j].ret && calls[i].op.thread() != calls[*j].op.thread()).count())
        .sum::<usize>()
        / 2;
    let (order, found) = match linearise(&calls, nsessions) {
        Some(o) => (o, true),
        None => {
            let mut o: Vec<usize> = (0..calls.len()).collect();
            o.sort_by_key(|i| calls[*i].ret);
            (o, false)
        }
    };
    let steps: Vec<(Op, Obs, bool)> = order.iter().map(|i| (calls[*i].op.clone(), calls[*i].obs.clone(), calls[*i].acc)).collect();
    let intervals: Vec<String> = order.iter().map(|i| format!("{}..{}", calls[*i].inv, calls[*i].ret)).collect();
    let mut out = finish_case(
        "stress",
        if found { &["linearisation-found"] } else { &["NO-LINEARISATION"] },
        &steps,
        serde_json::json!({"free_running_threads": nsessions, "overlapping_call_pairs": overlaps, "linearisation_found": found, "invocation_return_stamps": intervals}),
    );
    out.tallies.push(format!("stress-overlap:{}", if overlaps == 0 { "0" } else if overlaps < 5 { "1-4" } else { "5+" }));
    out
}

fn main() {
    let args = parse_args();
    let mut rng = Rng::new(args.seed);
    let mut sink = Sink::new(&args, "From IL Require Import Checks.C10.", "c10case", "c10_check", 40);
    let rt = tokio::runtime::Builder::new_multi_thread().worker_threads(6).enable_all().build().expect("runtime");
    let n = args.n.max(1);
    // plan: corpus, then blocks of exhaustive interleavings, with a stress case after every block
    enum Plan {
        Seq(&'static str, &'static [&'static str], usize, Vec<Op>, serde_json::Value),
        Stress(Vec<Vec<Op>>),
    }
    let mut plan: Vec<Plan> = corpus().into_iter().map(|(k, t, ns, ops)| Plan::Seq(k, t, ns, ops, serde_json::Value::Null)).collect();
    let mut block = 0;
    while plan.len() < n {
        block += 1;
        // a block: 2 or 3 sessions with 2 operations each (+ a session-less writer), all interleavings
        let three = rng.chance(1, 2);
        let mut lists: Vec<Vec<Op>> = vec![];
        let ns = if three { 3 } else { 2 };
        for s in 0..ns {
            lists.push(gen_session_list(&mut rng, s, 2, true));
        }
        if !three {
            lists.push(gen_writer_list(&mut rng, 2));
        }
        // a shared prefix so that answers are not all empty
        let mut prefix = vec![Op::PInsert { by: None, rel: 0, ts: vec![vec![1, 2]] }];
        if rng.chance(1, 2) {
            prefix.push(Op::PRegister { by: None, cl: copy(10, 0) });
        }
        if rng.chance(1, 2) {
            prefix.push(Op::SFact { s: 0, rel: 0, t: small_tuple(&mut rng) });
        }
        let all = interleavings(&lists);
        let total = all.len();
        for (k, il) in all.into_iter().enumerate() {
            if plan.len() >= n {
                break;
            }
            let mut sched = prefix.clone();
            sched.extend(il);
            sched.extend(final_observations(ns, &[0, 10, 11]));
            plan.push(Plan::Seq("exhaustive", &[], ns, sched, serde_json::json!({"block": block, "interleaving": k, "of": total})));
        }
        // a reset block: session 1 defines a rule, resets (clear / drop / KG switch), becomes dirty
        // again and queries the rule's head; all 15 interleavings with two calls of session 2
        if plan.len() < n {
            let rule = match rng.below(3) {
                0 => copy(11, 0),
                1 => swap(11, 0),
                _ => copy(11, 10),
            };
            let reset = match rng.below(5) {
                0 | 1 => Op::SClear { s: 0 },
                2 => Op::SKgUse { s: 0, kg: 1 },
                3 => Op::SDropIdx { s: 0, i: 0 },
                _ => Op::SDropRules { s: 0, name: 11 },
            };
            let lists = vec![
                vec![Op::SRule { s: 0, cl: rule }, reset, Op::SFact { s: 0, rel: 0, t: small_tuple(&mut rng) }, Op::SQuery { s: 0, rel: 11 }],
                gen_session_list(&mut rng, 1, 2, true),
            ];
            let prefix = vec![
                Op::PInsert { by: None, rel: 0, ts: vec![vec![1, 2]] },
                Op::PRegister { by: None, cl: copy(10, 0) },
                Op::SKgUse { s: 1, kg: 1 },
                Op::PInsert { by: Some(1), rel: 0, ts: vec![vec![8, 9]] },
                Op::SKgUse { s: 1, kg: 0 },
            ];
            let all = interleavings(&lists);
            let total = all.len();
            for (k, il) in all.into_iter().enumerate() {
                if plan.len() >= n {
                    break;
                }
                let mut sched = prefix.clone();
                sched.extend(il);
                sched.extend(final_observations(2, &[0, 10, 11]));
                plan.push(Plan::Seq("reset-block", &[], 2, sched, serde_json::json!({"block": block, "interleaving": k, "of": total})));
            }
        }
        // longer random sequential schedule and a free-running stress case
        if plan.len() < n {
            let ns = 3;
            let mut sched = vec![];
            let mut lists: Vec<Vec<Op>> = vec![];
            for s in 0..ns {
                lists.push(gen_session_list(&mut rng, s, 5, true));
            }
            lists.push(gen_writer_list(&mut rng, 4));
            let mut pos = vec![0usize; lists.len()];
            loop {
                let live: Vec<usize> = (0..lists.len()).filter(|i| pos[*i] < lists[*i].len()).collect();
                if live.is_empty() {
                    break;
                }
                let i = *rng.pick(&live);
                sched.push(lists[i][pos[i]].clone());
                pos[i] += 1;
            }
            sched.extend(final_observations(ns, &[0, 10, 11]));
            plan.push(Plan::Seq("random-schedule", &[], ns, sched, serde_json::Value::Null));
        }
        for _ in 0..4 {
            if plan.len() < n {
                let mut lists: Vec<Vec<Op>> = vec![];
                for s in 0..3 {
                    lists.push(gen_stress_list(&mut rng, s, 5));
                }
                plan.push(Plan::Stress(lists));
            }
        }
    }
    plan.truncate(n);
    // sequential cases in parallel on the runtime (each has its own Handler); stress cases one at a time
    let only = args.only;
    let results: Vec<Option<Outcome>> = rt.block_on(async {
        let mut out: Vec<Option<Outcome>> = Vec::with_capacity(plan.len());
        let mut pending: Vec<(usize, tokio::task::JoinHandle<Outcome>)> = vec![];
        for (i, p) in plan.into_iter().enumerate() {
            out.push(None);
            if only.map_or(false, |o| o != i) {
                continue;
            }
            match p {
                Plan::Seq(kind, tags, ns, sched, note) => {
                    pending.push((i, tokio::spawn(async move { run_sequential(kind, tags, ns, &sched, note).await })));
                    if pending.len() >= 6 {
                        for (j, h) in pending.drain(..) {
                            out[j] = Some(h.await.expect("case task"));
                        }
                    }
                }
                Plan::Stress(lists) => {
                    for (j, h) in pending.drain(..) {
                        out[j] = Some(h.await.expect("case task"));
                    }
                    out[i] = Some(run_stress(lists).await);
                }
            }
        }
        for (j, h) in pending.drain(..) {
            out[j] = Some(h.await.expect("case task"));
        }
        out
    });
    for r in results {
        match r {
            Some(o) => {
                for k in &o.tallies {
                    sink.tally(k);
                }
                sink.push(o.coq, o.desc, &o.tags, o.key);
            }
            None => sink.push(String::new(), serde_json::json!(null), &[], None),
        }
    }
    sink.finish();
}
