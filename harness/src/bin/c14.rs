//! C14 — maintenance operations are invisible.
//! Drives a real `StorageEngine` on a temp dir, under a persist configuration (buffer size, WAL size
//! limit, durability mode), through histories of inserts / deletes interleaved with save / compact /
//! graceful restart (save_all + drop + reopen) / drop + reopen; after every step observes the relation,
//! the number of batch files and the WAL line count; emits cases for Checks/C14.v.
use inputlayer::value::{Tuple, Value};
use inputlayer::{Config, DurabilityMode, StorageEngine};
use vharness::*;

const KG: &str = "default";
const REL: &str = "r";

#[derive(Clone, Debug)]
enum Op {
    Ins(Vec<Tuple>),
    Del(Vec<Tuple>),
    Save,
    Compact,
    Restart,
    DropReopen,
}

#[derive(Clone, Copy, Debug, PartialEq)]
struct Cfg {
    buffer: usize,
    max_wal: u64,
    mode: DurabilityMode,
}

fn mk_config(dir: &std::path::Path, c: Cfg) -> Config {
    let mut cfg = Config::default();
    cfg.storage.data_dir = dir.to_path_buf();
    cfg.storage.persist.buffer_size = c.buffer;
    cfg.storage.persist.max_wal_size_bytes = c.max_wal;
    cfg.storage.persist.durability_mode = c.mode;
    cfg.storage.performance.num_threads = 1;
    cfg
}

fn observe(e: &StorageEngine, dir: &std::path::Path, arity: usize, c: Cfg) -> (Vec<Tuple>, usize, Option<usize>) {
    let vars: Vec<String> = (0..arity).map(|i| format!("X{}", i)).collect();
    let q = e.execute_query_tuples_on(KG, &format!("q({}) <- {}({})", vars.join(", "), REL, vars.join(", "))).unwrap_or_default();
    let nb = std::fs::read_dir(dir.join("persist/batches"))
        .map(|it| it.flatten().filter(|f| f.path().extension().and_then(|s| s.to_str()) == Some("parquet")).count())
        .unwrap_or(0);
    // the WAL file is only compared in immediate mode (batched mode keeps lines in a user-space buffer)
    let wl = if c.mode == DurabilityMode::Immediate {
        Some(std::fs::read_to_string(dir.join("persist/wal/current.wal")).map(|s| s.lines().filter(|l| !l.trim().is_empty()).count()).unwrap_or(0))
    } else {
        None
    };
    (q, nb, wl)
}

fn show_tuple(t: &Tuple) -> String {
    format!("{:?}", t.values())
}

fn run_history(ops: &[Op], c: Cfg, arity: usize) -> (Vec<String>, Vec<String>) {
    let dir = tempfile::tempdir().expect("tempdir");
    let cfg = mk_config(dir.path(), c);
    let mut eng = Some(StorageEngine::new(cfg.clone()).expect("open fresh store"));
    let mut coq = vec![];
    let mut desc = vec![];
    for op in ops {
        let Some(e) = eng.as_ref() else {
            break;
        };
        let (co, d) = match op {
            Op::Ins(ts) => {
                let r = e.insert_tuples_into(KG, REL, ts.clone());
                let res = match &r {
                    Ok((n, d)) => format!("(Some ({}, {}))", coq_n(*n as u128), coq_n(*d as u128)),
                    Err(_) => "None".to_string(),
                };
                (format!("C14Ins {} {}", coq_tuples(ts), res), format!("insert {} => {:?}", ts.iter().map(show_tuple).collect::<Vec<_>>().join(" "), r.map_err(|e| e.to_string())))
            }
            Op::Del(ts) => {
                let r = e.delete_tuples_from(KG, REL, ts.clone());
                let res = match &r {
                    Ok(n) => format!("(Some {})", coq_n(*n as u128)),
                    Err(_) => "None".to_string(),
                };
                (format!("C14Del {} {}", coq_tuples(ts), res), format!("delete {} => {:?}", ts.iter().map(show_tuple).collect::<Vec<_>>().join(" "), r.map_err(|e| e.to_string())))
            }
            Op::Save => {
                let r = e.save_all();
                (format!("C14Save {}", coq_bool(r.is_ok())), format!("save => {:?}", r.map_err(|e| e.to_string())))
            }
            Op::Compact => {
                let r = e.compact_all();
                (format!("C14Compact {}", coq_bool(r.is_ok())), format!("compact => {:?}", r.map_err(|e| e.to_string())))
            }
            Op::Restart | Op::DropReopen => {
                let graceful = matches!(op, Op::Restart);
                let saved = if graceful { e.save_all().map_err(|e| e.to_string()) } else { Ok(()) };
                drop(eng.take());
                let reopened = StorageEngine::new(cfg.clone());
                let ok = saved.is_ok() && reopened.is_ok();
                let d = format!("{} => save {:?}, reopen {}", if graceful { "graceful restart" } else { "drop + reopen" }, saved, match &reopened {
                    Ok(_) => "ok".to_string(),
                    Err(e) => format!("FAILED {}", e),
                });
                if let Ok(e2) = reopened {
                    eng = Some(e2);
                }
                (format!("{} {}", if graceful { "C14Restart" } else { "C14DropReopen" }, coq_bool(ok)), d)
            }
        };
        let Some(e) = eng.as_ref() else {
            coq.push(format!("(({}), C14Obs [] 0%N None)", co));
            desc.push(d);
            break;
        };
        let (q, nb, wl) = observe(e, dir.path(), arity, c);
        coq.push(format!("(({}), C14Obs {} {} {})", co, coq_tuples(&q), coq_n(nb as u128), coq_opt(wl.map(|n| coq_n(n as u128)))));
        let mut qs: Vec<String> = q.iter().map(show_tuple).collect();
        qs.sort();
        desc.push(format!("{}   -> {{{}}} batches={} wal_lines={:?}", d, qs.join(" "), nb, wl));
    }
    (coq, desc)
}

const RELS: [&str; 2] = ["r", "r_weight"]; // one shard name is a prefix of the other

fn observe2(e: &StorageEngine, dir: &std::path::Path, arity: usize, c: Cfg) -> (Vec<Tuple>, Vec<Tuple>, usize, Option<usize>) {
    let vars: Vec<String> = (0..arity).map(|i| format!("X{}", i)).collect();
    let q = |rel: &str| e.execute_query_tuples_on(KG, &format!("q({}) <- {}({})", vars.join(", "), rel, vars.join(", "))).unwrap_or_default();
    let (_, nb, wl) = observe(e, dir, arity, c);
    (q(RELS[0]), q(RELS[1]), nb, wl)
}

/// two relations in one knowledge graph; writes name their relation, maintenance applies to the store
fn run_history2(ops: &[(usize, Op)], c: Cfg, arity: usize) -> (Vec<String>, Vec<String>) {
    let dir = tempfile::tempdir().expect("tempdir");
    let cfg = mk_config(dir.path(), c);
    let mut eng = Some(StorageEngine::new(cfg.clone()).expect("open fresh store"));
    let mut coq = vec![];
    let mut desc = vec![];
    for (rel, op) in ops {
        let Some(e) = eng.as_ref() else {
            break;
        };
        let name = RELS[*rel];
        let (co, d) = match op {
            Op::Ins(ts) => {
                let r = e.insert_tuples_into(KG, name, ts.clone());
                let res = match &r {
                    Ok((n, d)) => format!("(Some ({}, {}))", coq_n(*n as u128), coq_n(*d as u128)),
                    Err(_) => "None".to_string(),
                };
                (format!("C14Ins {} {}", coq_tuples(ts), res), format!("insert into {} {} => {:?}", name, ts.iter().map(show_tuple).collect::<Vec<_>>().join(" "), r.map_err(|e| e.to_string())))
            }
            Op::Del(ts) => {
                let r = e.delete_tuples_from(KG, name, ts.clone());
                let res = match &r {
                    Ok(n) => format!("(Some {})", coq_n(*n as u128)),
                    Err(_) => "None".to_string(),
                };
                (format!("C14Del {} {}", coq_tuples(ts), res), format!("delete from {} {} => {:?}", name, ts.iter().map(show_tuple).collect::<Vec<_>>().join(" "), r.map_err(|e| e.to_string())))
            }
            Op::Save => {
                let r = e.save_all();
                (format!("C14Save {}", coq_bool(r.is_ok())), format!("save => {:?}", r.map_err(|e| e.to_string())))
            }
            Op::Compact => {
                let r = e.compact_all();
                (format!("C14Compact {}", coq_bool(r.is_ok())), format!("compact => {:?}", r.map_err(|e| e.to_string())))
            }
            Op::Restart | Op::DropReopen => {
                let graceful = matches!(op, Op::Restart);
                let saved = if graceful { e.save_all().map_err(|e| e.to_string()) } else { Ok(()) };
                drop(eng.take());
                let reopened = StorageEngine::new(cfg.clone());
                let ok = saved.is_ok() && reopened.is_ok();
                let d = format!("{} => save {:?}, reopen {}", if graceful { "graceful restart" } else { "drop + reopen (nothing saved)" }, saved, match &reopened {
                    Ok(_) => "ok".to_string(),
                    Err(e) => format!("FAILED {}", e),
                });
                if let Ok(e2) = reopened {
                    eng = Some(e2);
                }
                (format!("{} {}", if graceful { "C14Restart" } else { "C14DropReopen" }, coq_bool(ok)), d)
            }
        };
        let second = coq_bool(*rel == 1);
        let Some(e) = eng.as_ref() else {
            coq.push(format!("(({}, ({})), C14Obs2 [] [] 0%N None)", second, co));
            desc.push(d);
            break;
        };
        let (q1, q2, nb, wl) = observe2(e, dir.path(), arity, c);
        coq.push(format!("(({}, ({})), C14Obs2 {} {} {} {})", second, co, coq_tuples(&q1), coq_tuples(&q2), coq_n(nb as u128), coq_opt(wl.map(|n| coq_n(n as u128)))));
        let show = |q: &Vec<Tuple>| {
            let mut v: Vec<String> = q.iter().map(show_tuple).collect();
            v.sort();
            v.join(" ")
        };
        desc.push(format!("{}   -> r={{{}}} r_weight={{{}}} batches={} wal_lines={:?}", d, show(&q1), show(&q2), nb, wl));
    }
    (coq, desc)
}

fn emit2(sink: &mut Sink, ops: &[(usize, Op)], c: Cfg, kind: u64, tag: &'static str) {
    if !sink.wants(sink.next_idx()) {
        sink.push(String::new(), serde_json::json!(null), &[tag], None);
        return;
    }
    let (coq, desc) = run_history2(ops, c, arity_of(kind));
    let term = format!("C14Case2 {} {}", coq_cfg(c), coq_list(&coq));
    sink.tally("relations:2");
    sink.tally(&format!("buffer:{}", c.buffer));
    sink.tally(&format!("mode:{:?}", c.mode));
    let mut wrote = false;
    let mut maint_after_write = false;
    for (_, op) in ops {
        sink.tally(match op {
            Op::Ins(_) => "op:insert",
            Op::Del(_) => "op:delete",
            Op::Save => "op:save",
            Op::Compact => "op:compact",
            Op::Restart => "op:restart",
            Op::DropReopen => "op:drop-reopen",
        });
        match op {
            Op::Ins(_) | Op::Del(_) => wrote = true,
            _ => {
                if wrote {
                    maint_after_write = true;
                }
            }
        }
    }
    let key = if maint_after_write { Some(format!("2rel {:?} {} {:?}", c, kind, ops)) } else { None };
    sink.push(term, serde_json::json!({"config": format!("{:?}", c), "relations": RELS, "tuple_kind": kind, "steps": desc}), &[tag], key);
}

fn mk_tuple(kind: u64, i: u64) -> Tuple {
    match kind {
        0 => Tuple::new(vec![Value::Int64(i as i64), Value::String(format!("s{}", i % 2).into())]),
        1 => Tuple::new(vec![Value::Int32(i as i32), Value::Int32((i * 7 % 3) as i32)]),
        2 => Tuple::new(vec![Value::Int64(i as i64)]),
        _ => Tuple::new(vec![Value::String(format!("k{}", i).into()), Value::Bool(i % 2 == 0), Value::Int64(-(i as i64))]),
    }
}
fn arity_of(kind: u64) -> usize {
    match kind {
        0 | 1 => 2,
        2 => 1,
        _ => 3,
    }
}
fn coq_cfg(c: Cfg) -> String {
    format!(
        "(mkCfg {} {} {})",
        coq_n(c.buffer as u128),
        coq_n(c.max_wal as u128),
        match c.mode {
            DurabilityMode::Immediate => "DImmediate",
            DurabilityMode::Batched => "DBatched",
            DurabilityMode::Async => "DAsync",
        }
    )
}

fn emit(sink: &mut Sink, ops: &[Op], c: Cfg, kind: u64, tag: &'static str) {
    if !sink.wants(sink.next_idx()) {
        sink.push(String::new(), serde_json::json!(null), &[tag], None);
        return;
    }
    let (coq, desc) = run_history(ops, c, arity_of(kind));
    let term = format!("C14Case {} {}", coq_cfg(c), coq_list(&coq));
    sink.tally(&format!("buffer:{}", c.buffer));
    sink.tally(&format!("max_wal:{}", c.max_wal));
    sink.tally(&format!("mode:{:?}", c.mode));
    let mut maint_after_write = false;
    let mut wrote = false;
    for op in ops {
        sink.tally(match op {
            Op::Ins(_) => "op:insert",
            Op::Del(_) => "op:delete",
            Op::Save => "op:save",
            Op::Compact => "op:compact",
            Op::Restart => "op:restart",
            Op::DropReopen => "op:drop-reopen",
        });
        match op {
            Op::Ins(_) | Op::Del(_) => wrote = true,
            _ => {
                if wrote {
                    maint_after_write = true;
                }
            }
        }
    }
    // non-trivial = a maintenance operation happens after at least one write
    let key = if maint_after_write { Some(format!("{:?} {} {:?}", c, kind, ops)) } else { None };
    sink.push(term, serde_json::json!({"config": format!("{:?}", c), "tuple_kind": kind, "steps": desc}), &[tag], key);
}

fn main() {
    let args = parse_args();
    let mut rng = Rng::new(args.seed);
    let mut sink = Sink::new(&args, "From IL Require Import Checks.C14.", "c14case", "c14_check", 20);
    let modes = [DurabilityMode::Immediate, DurabilityMode::Batched, DurabilityMode::Async];
    let x = |k| mk_tuple(k, 1);
    let y = |k| mk_tuple(k, 2);
    let z = |k| mk_tuple(k, 3);
    // ---- corpus: every configuration on one fixed history that flushes, compacts with deletes and
    //      duplicates, and restarts both ways
    for &buffer in &[1usize, 2, 3, 10000] {
        for &max_wal in &[0u64, 1] {
            for &mode in &modes {
                let c = Cfg { buffer, max_wal, mode };
                let mut ops = vec![Op::Ins(vec![x(0), y(0)]), Op::Ins(vec![x(0)]), Op::Del(vec![y(0)]), Op::Compact, Op::Ins(vec![y(0), z(0), z(0)]), Op::Save, Op::Del(vec![x(0), x(0)]), Op::Restart, Op::Del(vec![z(0)]), Op::Ins(vec![x(0)]), Op::Compact, Op::Compact];
                if mode != DurabilityMode::Async {
                    ops.push(Op::Ins(vec![z(0)]));
                    ops.push(Op::DropReopen);
                }
                ops.push(Op::Restart);
                emit(&mut sink, &ops, c, 0, "corpus");
            }
        }
    }
    // ---- random histories x random configurations
    for _ in 0..args.n {
        let c = Cfg { buffer: *rng.pick(&[1usize, 2, 3, 10000]), max_wal: *rng.pick(&[0u64, 1, 67_108_864]), mode: *rng.pick(&modes) };
        let kind = rng.below(4);
        let dom = rng.range(2, 4) as u64;
        let len = if rng.chance(1, 5) { rng.range(10, 25) } else { rng.range(2, 9) };
        let mut ops = vec![];
        for _ in 0..len {
            let pick = |rng: &mut Rng| mk_tuple(kind, rng.below(dom));
            match rng.below(20) {
                0..=6 => {
                    let n = rng.range(1, 3);
                    ops.push(Op::Ins((0..n).map(|_| pick(&mut rng)).collect()));
                }
                7..=11 => {
                    let n = rng.range(1, 2);
                    ops.push(Op::Del((0..n).map(|_| pick(&mut rng)).collect()));
                }
                12 | 13 => ops.push(Op::Save),
                14..=16 => ops.push(Op::Compact),
                17 | 18 => ops.push(Op::Restart),
                _ => {
                    if c.mode != DurabilityMode::Async {
                        ops.push(Op::DropReopen)
                    } else {
                        ops.push(Op::Restart)
                    }
                }
            }
        }
        ops.push(Op::Restart);
        emit(&mut sink, &ops, c, kind, "random");
    }
    // ---- two relations whose shard names are prefix-related (`default:r`, `default:r_weight`): one relation is
    //      flushed alone by a full buffer while the other still has WAL-only updates, then the engine is dropped
    //      and reopened WITHOUT a save (immediate / batched durability: every acknowledged write is in the WAL)
    for &buffer in &[1usize, 2, 3, 10000] {
        for &mode in &[DurabilityMode::Immediate, DurabilityMode::Batched] {
            let c = Cfg { buffer, max_wal: 0, mode };
            for (a, b) in [(0usize, 1usize), (1, 0)] {
                // relation `a` fills its buffer (3 updates), relation `b` has one / two updates only
                let ops = vec![(b, Op::Ins(vec![x(0)])), (a, Op::Ins(vec![x(0), y(0), z(0)])), (b, Op::Ins(vec![y(0)])), (0, Op::DropReopen), (a, Op::Del(vec![y(0)])), (b, Op::Del(vec![x(0)])), (a, Op::Ins(vec![x(0), y(0)])), (0, Op::DropReopen), (0, Op::Compact), (0, Op::DropReopen), (0, Op::Restart)];
                emit2(&mut sink, &ops, c, 0, "corpus-2rel");
            }
        }
    }
    for _ in 0..(args.n / 2) {
        let mode = *rng.pick(&modes);
        let c = Cfg { buffer: *rng.pick(&[1usize, 2, 3, 4, 10000]), max_wal: *rng.pick(&[0u64, 67_108_864]), mode };
        let kind = rng.below(4);
        let dom = rng.range(2, 4) as u64;
        let len = rng.range(3, 14);
        let mut ops = vec![];
        for _ in 0..len {
            let rel = rng.below(2) as usize;
            let pick = |rng: &mut Rng| mk_tuple(kind, rng.below(dom));
            match rng.below(20) {
                0..=8 => {
                    let n = rng.range(1, 3);
                    ops.push((rel, Op::Ins((0..n).map(|_| pick(&mut rng)).collect())));
                }
                9..=12 => {
                    let n = rng.range(1, 2);
                    ops.push((rel, Op::Del((0..n).map(|_| pick(&mut rng)).collect())));
                }
                13 => ops.push((0, Op::Save)),
                14 | 15 => ops.push((0, Op::Compact)),
                16 => ops.push((0, Op::Restart)),
                _ => ops.push((0, if mode != DurabilityMode::Async { Op::DropReopen } else { Op::Restart })),
            }
        }
        ops.push((0, if mode != DurabilityMode::Async { Op::DropReopen } else { Op::Restart }));
        emit2(&mut sink, &ops, c, kind, "random-2rel");
    }
    sink.finish();
}
