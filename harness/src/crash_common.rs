//! Shared by the crash-property harnesses (c16, c13): running a workload in a child process
//! under `strace`, calling the replayer `tools/fsreplay.py`, and reading its index.
//! Included with `#[path = "../crash_common.rs"] mod crash_common;` (lib.rs is shared and not edited).
#![allow(dead_code)]
use std::io::Write;
use std::path::{Path, PathBuf};
use std::process::Command;

pub fn verif_root() -> PathBuf {
    PathBuf::from(std::env::var("VERIF_ROOT").unwrap_or_else(|_| "/verif".to_string()))
}

/// An fd-backed marker the child writes to; every line shows up as a `write` in the strace log.
pub struct Marker(std::fs::File);
impl Marker {
    pub fn open(path: &Path) -> Marker {
        Marker(std::fs::OpenOptions::new().create(true).append(true).open(path).expect("marker"))
    }
    pub fn mark(&mut self, s: &str) {
        self.0.write_all(format!("@@{}\n", s).as_bytes()).expect("marker write");
    }
}

pub const STRACE_SET: &str = "trace=%file,write,pwrite64,writev,fsync,fdatasync,ftruncate,close,rename,renameat,renameat2,unlink,unlinkat,dup,dup2,dup3,fcntl,openat,open,creat,mkdir,mkdirat,rmdir,link,linkat,symlink,symlinkat,truncate";

/// Run `self --child ...args` under strace; returns (exit ok, strace log path).
pub fn run_child_traced(work: &Path, child_args: &[String]) -> (bool, PathBuf, String) {
    let log = work.join("trace.log");
    let exe = std::env::current_exe().expect("current_exe");
    let out = Command::new("strace")
        .arg("-f")
        .arg("-e")
        .arg(STRACE_SET)
        .arg("-xx")
        .arg("-s")
        .arg("1000000")
        .arg("-o")
        .arg(&log)
        .arg(&exe)
        .args(child_args)
        .env("RUST_LOG", "off")
        .output()
        .expect("spawn strace");
    let mut txt = String::from_utf8_lossy(&out.stdout).to_string();
    txt.push_str(&String::from_utf8_lossy(&out.stderr));
    (out.status.success(), log, txt)
}

/// Run the replayer; it writes `<states>/index.json` and one directory per crash state.
pub fn run_replayer(log: &Path, root: &Path, marker: &Path, states: &Path, mode: &str, seed: u64, cap: usize) -> Result<serde_json::Value, String> {
    let script = verif_root().join("tools").join("fsreplay.py");
    let out = Command::new("python3")
        .arg(&script)
        .arg("--log")
        .arg(log)
        .arg("--root")
        .arg(root)
        .arg("--marker")
        .arg(marker)
        .arg("--out")
        .arg(states)
        .arg("--mode")
        .arg(mode)
        .arg("--seed")
        .arg(seed.to_string())
        .arg("--cap")
        .arg(cap.to_string())
        .output()
        .map_err(|e| format!("spawn fsreplay: {e}"))?;
    if !out.status.success() {
        return Err(format!(
            "fsreplay failed: {}\n{}",
            String::from_utf8_lossy(&out.stdout),
            String::from_utf8_lossy(&out.stderr)
        ));
    }
    let idx = std::fs::read_to_string(states.join("index.json")).map_err(|e| format!("index.json: {e}"))?;
    serde_json::from_str(&idx).map_err(|e| format!("index.json parse: {e}"))
}

/// Simple ordered parallel map over `n` jobs with `threads` workers.
pub fn par_map<T: Send, F: Fn(usize) -> T + Sync>(n: usize, threads: usize, f: F) -> Vec<T> {
    use std::sync::atomic::{AtomicUsize, Ordering};
    use std::sync::Mutex;
    let next = AtomicUsize::new(0);
    let out: Mutex<Vec<Option<T>>> = Mutex::new((0..n).map(|_| None).collect());
    std::thread::scope(|s| {
        for _ in 0..threads.max(1).min(n.max(1)) {
            s.spawn(|| loop {
                let i = next.fetch_add(1, Ordering::SeqCst);
                if i >= n {
                    break;
                }
                let r = f(i);
                out.lock().unwrap()[i] = Some(r);
            });
        }
    });
    out.into_inner().unwrap().into_iter().map(|x| x.expect("job")).collect()
}
