//! Shared driver for C27 / C29 / C30 (included by the three binaries with `#[path]`).
//!
//! One case = one fresh `Handler` on a temp dir with `_internal` (users, kg_acls), `default`
//! and a few more knowledge graphs, one identity, one request (`execute_program`) and a full
//! dump of the stored state before and after.  The case is printed as the Coq term
//! `HCase req world observed` of Model/HandlerAuth.v.
#![allow(dead_code)]
use inputlayer::auth::{AuthIdentity, Role};
use inputlayer::protocol::Handler;
use inputlayer::statement::{parse_statement, MetaCommand, Statement};
use inputlayer::value::{Tuple, Value};
use inputlayer::Config;
use vharness::*;

/// Exhaustive on purpose (copy of the mapping in c28.rs): a new variant is a build error.
pub fn kind_name(s: &Statement) -> &'static str {
    match s {
        Statement::Insert(_) => "SInsert",
        Statement::Delete(_) => "SDelete",
        Statement::Update(_) => "SUpdate",
        Statement::TypeDecl(_) => "STypeDecl",
        Statement::SessionRule(_) => "SSessionRule",
        Statement::Fact(_) => "SFact",
        Statement::Query(_) => "SQuery",
        Statement::SchemaDecl(_) => "SSchemaDecl",
        Statement::PersistentRule(_) => "SPersistentRule",
        Statement::DeleteRelationOrRule(_) => "SDeleteRelationOrRule",
        Statement::Meta(m) => match m {
            MetaCommand::KgShow => "MKgShow",
            MetaCommand::KgList => "MKgList",
            MetaCommand::KgCreate(_) => "MKgCreate",
            MetaCommand::KgUse(_) => "MKgUse",
            MetaCommand::KgDrop(_) => "MKgDrop",
            MetaCommand::RelList => "MRelList",
            MetaCommand::RelDescribe(_) => "MRelDescribe",
            MetaCommand::RelDrop(_) => "MRelDrop",
            MetaCommand::RuleList => "MRuleList",
            MetaCommand::RuleQuery(_) => "MRuleQuery",
            MetaCommand::RuleShowDef(_) => "MRuleShowDef",
            MetaCommand::RuleDrop(_) => "MRuleDrop",
            MetaCommand::RuleDropPrefix(_) => "MRuleDropPrefix",
            MetaCommand::RuleEdit { .. } => "MRuleEdit",
            MetaCommand::RuleClear(_) => "MRuleClear",
            MetaCommand::RuleRemove { .. } => "MRuleRemove",
            MetaCommand::SessionList => "MSessionList",
            MetaCommand::SessionClear => "MSessionClear",
            MetaCommand::SessionDrop(_) => "MSessionDrop",
            MetaCommand::SessionDropName(_) => "MSessionDropName",
            MetaCommand::IndexList => "MIndexList",
            MetaCommand::IndexCreate(_) => "MIndexCreate",
            MetaCommand::IndexDrop(_) => "MIndexDrop",
            MetaCommand::IndexStats(_) => "MIndexStats",
            MetaCommand::IndexRebuild(_) => "MIndexRebuild",
            MetaCommand::ClearPrefix(_) => "MClearPrefix",
            MetaCommand::Compact => "MCompact",
            MetaCommand::Status => "MStatus",
            MetaCommand::Debug(_) => "MDebug",
            MetaCommand::Why(_) => "MWhy",
            MetaCommand::WhyFull(_) => "MWhyFull",
            MetaCommand::WhyNot(_) => "MWhyNot",
            MetaCommand::AgentMessage(_) => "MAgentMessage",
            MetaCommand::AgentStart(_) => "MAgentStart",
            MetaCommand::AgentSetup(_) => "MAgentSetup",
            MetaCommand::AgentExamples => "MAgentExamples",
            MetaCommand::Help => "MHelp",
            MetaCommand::Quit => "MQuit",
            MetaCommand::Load { .. } => "MLoad",
            MetaCommand::UserList => "MUserList",
            MetaCommand::UserCreate { .. } => "MUserCreate",
            MetaCommand::UserDrop(_) => "MUserDrop",
            MetaCommand::UserPassword { .. } => "MUserPassword",
            MetaCommand::UserRole { .. } => "MUserRole",
            MetaCommand::ApiKeyCreate(_) => "MApiKeyCreate",
            MetaCommand::ApiKeyList => "MApiKeyList",
            MetaCommand::ApiKeyRevoke(_) => "MApiKeyRevoke",
            MetaCommand::KgAclList(_) => "MKgAclList",
            MetaCommand::KgAclGrant { .. } => "MKgAclGrant",
            MetaCommand::KgAclRevoke { .. } => "MKgAclRevoke",
        },
    }
}

// ---------------------------------------------------------------- names
/// knowledge-graph names; the index is the model's `kgname`
pub const KGS: [&str; 7] = ["_internal", "default", "k2", "k3", "k4", "k5", "k6"];
/// user names; the index is the model's user id (0 = unknown)
pub const USERS: [&str; 5] = ["?", "root", "ed", "bob", "eve"];
pub const KGROLES: [&str; 3] = ["owner", "editor", "viewer"];
pub const HASH_MARK: &str = "h4sh-s3cret";

pub fn kg_id(name: &str) -> u128 {
    KGS.iter().position(|k| *k == name).map(|i| i as u128).unwrap_or(99)
}
pub fn user_id(name: &str) -> u128 {
    USERS.iter().position(|k| *k == name).map(|i| i as u128).unwrap_or(0)
}
pub fn coq_kgrole(r: &str) -> Option<&'static str> {
    match r.to_lowercase().as_str() {
        "owner" => Some("KOwner"),
        "editor" => Some("KEditor"),
        "viewer" => Some("KViewer"),
        _ => None,
    }
}
pub fn coq_role(r: &Role) -> &'static str {
    match r {
        Role::Admin => "RAdmin",
        Role::Editor => "REditor",
        Role::Viewer => "RViewer",
    }
}

// ---------------------------------------------------------------- the program text -> logical lines
/// Copy of `strip_comments` (src/protocol/handler.rs).
pub fn strip_comments(program: &str) -> String {
    program
        .lines()
        .filter(|line| {
            let trimmed = line.trim();
            !trimmed.starts_with('%') && !trimmed.starts_with("//")
        })
        .collect::<Vec<_>>()
        .join("\n")
}
/// Copy of `join_continuation_lines` (src/protocol/handler.rs).
pub fn join_continuation_lines(program: &str) -> String {
    let mut result: Vec<String> = Vec::new();
    for line in program.lines() {
        if line.trim().is_empty() {
            result.push(String::new());
            continue;
        }
        if line.starts_with(|c: char| c.is_whitespace()) && !result.is_empty() {
            if let Some(last) = result.iter_mut().rev().find(|l| !l.is_empty()) {
                last.push(' ');
                last.push_str(line.trim());
                continue;
            }
        }
        result.push(line.to_string());
    }
    result.join("\n")
}
pub fn logical_lines(program: &str) -> Vec<String> {
    join_continuation_lines(&strip_comments(program))
        .lines()
        .map(|l| l.trim().to_string())
        .filter(|l| !l.is_empty())
        .collect()
}

// ---------------------------------------------------------------- statement -> model `stmt`
/// What the statement does to the marks of the KG it runs on: derived from the PARSED statement
/// (relation / rule names follow the generator's naming scheme t / r<m> / s<m>).
fn effect_of(st: &Statement) -> String {
    fn num(name: &str, prefix: char) -> Option<u128> {
        name.strip_prefix(prefix).and_then(|d| d.parse::<u128>().ok())
    }
    match st {
        Statement::Insert(op) if op.relation == "t" && op.tuples.len() == 1 && op.tuples[0].len() == 1 => {
            match format!("{:?}", op.tuples[0][0]).as_str() {
                s => {
                    let digits: String = s.chars().filter(|c| c.is_ascii_digit()).collect();
                    match digits.parse::<u128>() {
                        Ok(m) => format!("(EIns {})", coq_n(m)),
                        Err(_) => "ENone".into(),
                    }
                }
            }
        }
        Statement::Delete(op) if op.relation == "t" => {
            let s = format!("{:?}", op.pattern);
            if s.contains("SingleTuple") {
                let digits: String = s.chars().filter(|c| c.is_ascii_digit()).collect();
                match digits.parse::<u128>() {
                    Ok(m) => format!("(EDel {})", coq_n(m)),
                    Err(_) => "ENone".into(),
                }
            } else {
                "ENone".into()
            }
        }
        Statement::PersistentRule(r) => match num(&r.head.relation, 'r') {
            Some(m) => format!("(EAddRule {})", coq_n(m)),
            None => "ENone".into(),
        },
        Statement::DeleteRelationOrRule(n) => match num(n, 'r') {
            Some(m) => format!("(EDelRule {})", coq_n(m)),
            None => "ENone".into(),
        },
        Statement::SchemaDecl(d) if d.persistent => match num(&d.name, 's') {
            Some(m) => format!("(EAddSchema {})", coq_n(m)),
            None => "ENone".into(),
        },
        Statement::Meta(MetaCommand::RelDrop(n)) if n == "t" => "EDropRel".into(),
        Statement::Meta(MetaCommand::RelDescribe(n)) if n == "t" => "EDescribe".into(),
        Statement::Meta(MetaCommand::RuleDrop(n)) => match num(n, 'r') {
            Some(m) => format!("(EDelRule {})", coq_n(m)),
            None => "ENone".into(),
        },
        _ => "ENone".into(),
    }
}

pub fn coq_stmt(st: &Statement) -> String {
    let kind = kind_name(st);
    let (arg, user, role): (Option<String>, String, Option<String>) = match st {
        Statement::Meta(MetaCommand::KgUse(n) | MetaCommand::KgCreate(n) | MetaCommand::KgDrop(n)) => {
            (Some(n.clone()), String::new(), None)
        }
        Statement::Meta(MetaCommand::KgAclList(o)) => (o.clone(), String::new(), None),
        Statement::Meta(MetaCommand::KgAclGrant { kg_name, username, role }) => {
            (Some(kg_name.clone()), username.clone(), Some(role.clone()))
        }
        Statement::Meta(MetaCommand::KgAclRevoke { kg_name, username }) => (Some(kg_name.clone()), username.clone(), None),
        Statement::Meta(MetaCommand::UserDrop(username)) => (None, username.clone(), None),
        _ => (None, String::new(), None),
    };
    format!(
        "(St {} {} {} {} {})",
        kind,
        coq_opt(arg.map(|n| coq_n(kg_id(&n)))),
        effect_of(st),
        coq_n(user_id(&user)),
        coq_opt(role.and_then(|r| coq_kgrole(&r).map(|s| s.to_string())))
    )
}
pub fn coq_parse(text: &str) -> (String, Option<&'static str>) {
    match parse_statement(text) {
        Ok(st) => (format!("(Some {})", coq_stmt(&st)), Some(kind_name(&st))),
        Err(_) => ("None".to_string(), None),
    }
}

// ---------------------------------------------------------------- environment
pub struct Setup {
    /// which of KGS[1..] exist initially (index into KGS); `_internal` always exists
    pub existing: Vec<usize>,
    /// ACL rows (kg index, user index, role name) inserted into _internal:kg_acls
    pub acls: Vec<(usize, usize, &'static str)>,
}

pub struct Env {
    pub h: Handler,
    _tmp: tempfile::TempDir,
}

fn s(v: &str) -> Value {
    Value::string(v)
}

impl Env {
    pub fn new(setup: &Setup) -> Env {
        let tmp = tempfile::tempdir().unwrap();
        let mut c = Config::default();
        c.storage.data_dir = tmp.path().to_path_buf();
        let h = Handler::from_config(c).unwrap();
        {
            let st = h.get_storage();
            st.create_knowledge_graph("_internal").unwrap();
            let users = vec![
                Tuple::new(vec![s("root"), s(HASH_MARK), s("admin")]),
                Tuple::new(vec![s("ed"), s(HASH_MARK), s("editor")]),
                Tuple::new(vec![s("bob"), s(HASH_MARK), s("viewer")]),
                Tuple::new(vec![s("eve"), s(HASH_MARK), s("viewer")]),
            ];
            st.insert_tuples_into("_internal", "users", users).unwrap();
            st.insert_tuples_into("_internal", "api_keys", vec![Tuple::new(vec![s("boot"), s(HASH_MARK), s("root")])]).unwrap();
            let rows: Vec<Tuple> =
                setup.acls.iter().map(|(k, u, r)| Tuple::new(vec![s(KGS[*k]), s(USERS[*u]), s(r)])).collect();
            if !rows.is_empty() {
                st.insert_tuples_into("_internal", "kg_acls", rows).unwrap();
            }
            for &k in &setup.existing {
                let name = KGS[k];
                if name != "default" {
                    st.create_knowledge_graph(name).unwrap();
                }
                st.insert_tuples_into(
                    name,
                    "t",
                    vec![Tuple::new(vec![Value::Int64(100)]), Tuple::new(vec![Value::Int64(101)]), Tuple::new(vec![Value::Int64(102)])],
                )
                .unwrap();
                let rule = inputlayer::statement::parse_rule_definition("r100(X) <- t(X)").unwrap();
                st.register_rule_in(name, &rule).unwrap();
            }
        }
        Env { h, _tmp: tmp }
    }

    /// (world as a Coq term, canonical text of users+api_keys, full canonical text)
    pub fn world(&self) -> (String, String, String) {
        let st = self.h.get_storage();
        let mut kgs = vec![];
        let mut full = String::new();
        for kg in st.list_knowledge_graphs() {
            let mut marks: Vec<String> = vec![];
            if kg != "_internal" || true {
                let rels = st.list_relations_in(&kg).unwrap_or_default();
                if rels.iter().any(|r| r == "t") {
                    marks.push("MT".into());
                }
                if let Ok(snap) = st.get_snapshot_for(&kg) {
                    if let Some(ts) = snap.input_tuples.get("t") {
                        let mut ms: Vec<i64> = ts.iter().filter_map(|t| t.values().first().and_then(|v| v.as_i64())).collect();
                        ms.sort();
                        ms.dedup();
                        for m in ms {
                            marks.push(format!("MF {}", coq_n(m as u128)));
                        }
                    }
                    let mut names: Vec<&String> = snap.input_tuples.keys().collect();
                    names.sort();
                    for n in names {
                        let mut v: Vec<String> = snap.input_tuples[n].iter().map(|t| format!("{:?}", t.values())).collect();
                        v.sort();
                        full.push_str(&format!("{kg}/{n}={v:?};"));
                    }
                }
                let mut rules = st.list_rules_in(&kg).unwrap_or_default();
                rules.sort();
                for r in &rules {
                    if let Some(m) = r.strip_prefix('r').and_then(|d| d.parse::<u128>().ok()) {
                        marks.push(format!("MR {}", coq_n(m)));
                    }
                }
                let mut schemas = st.list_schemas_in(&kg).unwrap_or_default();
                schemas.sort();
                for r in &schemas {
                    if let Some(m) = r.strip_prefix('s').and_then(|d| d.parse::<u128>().ok()) {
                        marks.push(format!("MS {}", coq_n(m)));
                    }
                }
                full.push_str(&format!("{kg}:rules={rules:?};schemas={schemas:?};"));
            }
            kgs.push(format!("({}, {})", coq_n(kg_id(&kg)), coq_list(&marks)));
        }
        let mut acls = vec![];
        let mut auth = String::new();
        if let Ok(snap) = st.get_snapshot_for("_internal") {
            if let Some(rows) = snap.input_tuples.get("kg_acls") {
                let mut v: Vec<(u128, u128, String)> = rows
                    .iter()
                    .filter_map(|t| {
                        let vals = t.values();
                        match (vals.first().and_then(|v| v.as_str()), vals.get(1).and_then(|v| v.as_str()), vals.get(2).and_then(|v| v.as_str())) {
                            (Some(k), Some(u), Some(r)) => coq_kgrole(r).map(|r| (kg_id(k), user_id(u), r.to_string())),
                            _ => None,
                        }
                    })
                    .collect();
                v.sort();
                for (k, u, r) in v {
                    acls.push(format!("({}, {}, {})", coq_n(k), coq_n(u), r));
                }
            }
            for rel in ["users", "api_keys"] {
                let mut v: Vec<String> = snap.input_tuples.get(rel).map(|ts| ts.iter().map(|t| format!("{:?}", t.values())).collect()).unwrap_or_default();
                v.sort();
                auth.push_str(&format!("{rel}={v:?};"));
            }
        }
        (format!("(World {} {})", coq_list(&kgs), coq_list(&acls)), auth, full)
    }
}

// ---------------------------------------------------------------- one request
pub struct Request {
    pub user: usize,    // index into USERS (1 root/admin, 2 ed/editor, 3 bob/viewer)
    /// the KG (index into KGS) the request's session is bound to; None = no session id
    pub bound: Option<usize>,
    /// the KG given explicitly with the request; None = execute_program(Some(sid), None, ..).
    /// Three shapes: session only (production), explicit only, and BOTH (drawn independently).
    pub explicit: Option<usize>,
    pub program: String,
}

pub fn role_of_user(u: usize) -> Role {
    match USERS[u] {
        "root" => Role::Admin,
        "ed" => Role::Editor,
        _ => Role::Viewer,
    }
}

pub struct Outcome {
    pub coq: String,
    pub dec: u8,
    pub changed: bool,
    pub result_text: String,
    pub line_kinds: Vec<Option<&'static str>>,
    pub whole_kind: Option<&'static str>,
}

/// Runs one request on a fresh environment and prints it as `HCase ...`.
pub fn run_case(rt: &tokio::runtime::Runtime, setup: &Setup, rq: &Request) -> Outcome {
    let env = Env::new(setup);
    let role = role_of_user(rq.user);
    let id = AuthIdentity { username: USERS[rq.user].to_string(), role };
    // the session: bound to the KG directly (production binds it through create_session_with_auth,
    // which requires some role; binding directly also covers roles revoked after the session started)
    let cur = rq.explicit.or(rq.bound).expect("a request names its KG through the session or explicitly");
    let sid = if let Some(b) = rq.bound {
        let start = if KGS[b] == "_internal" || !setup.existing.contains(&b) { "default" } else { KGS[b] };
        let sid = env.h.create_session(start).expect("create_session");
        if start != KGS[b] {
            env.h.session_manager().switch_kg(&sid, KGS[b]).expect("switch_kg");
        }
        Some(sid)
    } else {
        None
    };
    let (w0, auth0, full0) = env.world();
    let res = rt.block_on(env.h.execute_program(
        sid.as_ref(),
        rq.explicit.map(|e| KGS[e].to_string()),
        rq.program.clone(),
        Some(&id),
    ));
    let (w1, auth1, full1) = env.world();
    let (dec, result_text, leak) = match &res {
        Ok(q) => {
            let txt: Vec<String> = q.rows.iter().map(|r| format!("{:?}", r.values)).collect();
            let leak = txt.iter().any(|t| t.contains(HASH_MARK));
            (2u8, format!("Ok {:?}", txt), leak)
        }
        Err(e) => {
            let d = if e.starts_with("Access denied") || e.starts_with("Permission denied") {
                0
            } else if e.starts_with("VALIDATION_ERRORS:") {
                1
            } else {
                3
            };
            (d, format!("Err {e}"), e.contains(HASH_MARK))
        }
    };
    let bound = match &sid {
        Some(sid) => env.h.session_manager().session_kg(sid).ok().map(|k| coq_n(kg_id(&k))),
        None => None,
    };
    let (whole, whole_kind) = coq_parse(rq.program.trim());
    let mut line_kinds = vec![];
    let lines: Vec<String> = logical_lines(&rq.program)
        .iter()
        .map(|l| {
            let (c, k) = coq_parse(l);
            line_kinds.push(k);
            c
        })
        .collect();
    let req = format!(
        "(Req {} {} {} {} {} {})",
        coq_role(&role),
        coq_n(rq.user as u128),
        coq_opt(rq.bound.map(|b| coq_n(b as u128))),
        coq_n(cur as u128),
        whole,
        coq_list(&lines)
    );
    let obs = format!(
        "(Obs {} {} {} {} {})",
        coq_n(dec as u128),
        w1,
        coq_opt(bound),
        coq_bool(leak),
        coq_bool(auth0 != auth1)
    );
    Outcome {
        coq: format!("(HCase {} {} {})", req, w0, obs),
        dec,
        changed: full0 != full1 || auth0 != auth1 || w0 != w1,
        result_text,
        line_kinds,
        whole_kind,
    }
}

// ---------------------------------------------------------------- program generator
pub struct Gen {
    pub next_mark: u128,
}

impl Gen {
    pub fn new() -> Gen {
        Gen { next_mark: 200 }
    }
    fn fresh(&mut self) -> u128 {
        self.next_mark += 1;
        self.next_mark
    }
    fn some_mark(&mut self, rng: &mut Rng) -> u128 {
        if rng.chance(1, 2) || self.next_mark == 200 {
            100 + rng.below(3) as u128
        } else {
            201 + rng.below((self.next_mark - 200) as u64) as u128
        }
    }
    fn kg(&self, rng: &mut Rng, internal_bias: u64) -> &'static str {
        if rng.chance(internal_bias, 10) {
            "_internal"
        } else {
            KGS[1 + rng.below(5) as usize]
        }
    }
    /// a data statement that changes stored state
    pub fn write_stmt(&mut self, rng: &mut Rng) -> String {
        match rng.below(9) {
            0 | 1 => format!("+t[({},)]", self.fresh()),
            2 => format!("+t({})", self.fresh()),
            3 => format!("-t({})", self.some_mark(rng)),
            4 => format!("+r{}(X) <- t(X)", self.fresh()),
            5 => format!("-r{}", self.some_mark(rng)),
            6 => format!("+s{}(a: int)", self.fresh()),
            7 => format!(".rule drop r{}", self.some_mark(rng)),
            _ => ".rel drop t".to_string(),
        }
    }
    /// a statement that reads or has no stored effect
    pub fn read_stmt(&mut self, rng: &mut Rng) -> String {
        let v = [
            "?t(X)", "?users(A, B, C)", "?r100(X)", "p(X) <- t(X)", "t(5)", "type Age: int", ".kg", ".kg list", ".rel list", ".rule list",
            ".rel describe t", ".rel t", ".rel t", ".rule r100", ".rule show r100", ".index list", ".status", ".help", ".load data.iql", ".clear prefix zz", ".index drop nope",
            "-t(X), +t(X) <- t(X), X > 1000000", ".rule clear zz9", ".index stats nope", ".session list", ".rule def r100", ".rule drop prefix zz",
        ];
        rng.pick(&v).to_string()
    }
    pub fn kg_stmt(&mut self, rng: &mut Rng, internal_bias: u64) -> String {
        let k = self.kg(rng, internal_bias);
        match rng.below(6) {
            0 | 1 | 2 => format!(".kg use {k}"),
            3 => format!(".kg create {k}"),
            _ => format!(".kg drop {k}"),
        }
    }
    pub fn direct_stmt(&mut self, rng: &mut Rng, internal_bias: u64, allow_user_create: bool) -> String {
        let k = self.kg(rng, internal_bias);
        let role = *rng.pick(&["owner", "editor", "viewer", "boss"]);
        match rng.below(14) {
            0 => ".kg acl list".to_string(),
            1 => format!(".kg acl list {k}"),
            2 | 3 => format!(".kg acl grant {k} eve {role}"),
            4 => format!(".kg acl revoke {k} {}", rng.pick(&["eve", "bob", "ed"])),
            5 => ".session clear".to_string(),
            6 => ".session drop 0".to_string(),
            7 => ".user list".to_string(),
            8 => ".user drop eve".to_string(),
            9 => ".user role eve editor".to_string(),
            10 => ".apikey list".to_string(),
            11 => ".apikey revoke boot".to_string(),
            12 => ".compact".to_string(),
            _ => {
                if allow_user_create {
                    ".user create zed pw admin".to_string()
                } else {
                    ".user password eve".to_string()
                }
            }
        }
    }
    pub fn bad_stmt(&mut self, rng: &mut Rng) -> String {
        let v = ["+t[(", "garbage((", ".kg bogus", "foo", "?", ".kg use", "+t(1", "-", "t(X) <-", ".nosuch", "+r9(X) <- ", ":= 3"];
        rng.pick(&v).to_string()
    }
    /// decorate a list of statements with comments, blank lines, inline comments and continuation lines
    pub fn render(&mut self, rng: &mut Rng, stmts: &[String]) -> String {
        let mut out: Vec<String> = vec![];
        for st in stmts {
            match rng.below(12) {
                0 => out.push("// a comment".to_string()),
                1 => out.push("% another comment".to_string()),
                2 => out.push(String::new()),
                3 => out.push("   // indented comment".to_string()),
                _ => {}
            }
            if let Some(pos) = st.find("<- ") {
                if rng.chance(1, 3) {
                    // continuation line: the body on an indented next line
                    out.push(st[..pos + 2].to_string());
                    if rng.chance(1, 4) {
                        out.push("  // comment inside a continuation".to_string());
                    }
                    out.push(format!("  {}", &st[pos + 3..]));
                    continue;
                }
            }
            if rng.chance(1, 10) && !st.starts_with('.') {
                out.push(format!("{st} // trailing"));
            } else {
                out.push(st.clone());
            }
        }
        let mut p = out.join("\n");
        if rng.chance(1, 8) {
            p = format!("  \n{p}\n ");
        }
        p
    }
}

/// every combination-ish role map: roles of the caller on default, k2, k3 (+ sometimes a stale row for k4,
/// sometimes a row on _internal), plus unrelated rows for other users
pub fn gen_setup(rng: &mut Rng, user: usize, combo: u64, internal_bias: u64) -> Setup {
    let mut acls: Vec<(usize, usize, &'static str)> = vec![];
    let opts: [Option<&'static str>; 4] = [None, Some("viewer"), Some("editor"), Some("owner")];
    let mut c = combo;
    for k in 1..=3usize {
        if let Some(r) = opts[(c % 4) as usize] {
            acls.push((k, user, r));
        }
        c /= 4;
    }
    if rng.chance(1, 3) {
        // stale rows: k4 / k5 do not exist (a `.kg use` of them is authorized but fails)
        acls.push((4 + rng.below(2) as usize, user, *rng.pick(&["owner", "editor"])));
    }
    if rng.chance(if internal_bias >= 5 { 3 } else { 1 }, 12) {
        acls.push((0, user, *rng.pick(&["owner", "viewer"]))); // an admin granted something on _internal
    }
    // other users' rows
    for k in 1..=3usize {
        if rng.chance(1, 2) {
            let other = if user == 4 { 3 } else { 4 };
            acls.push((k, other, *rng.pick(&["viewer", "editor", "owner"])));
        }
    }
    let existing = if rng.chance(1, 5) { vec![1, 2] } else { vec![1, 2, 3] };
    Setup { existing, acls }
}

// ---------------------------------------------------------------- the three drivers
pub struct Params {
    pub ctor: &'static str,      // C27Case / C29Case / C30Case
    pub header: &'static str,
    pub case_ty: &'static str,
    pub checker: &'static str,
    pub internal_bias: u64,      // out of 10: how often a KG name is `_internal`
    pub inject_errors: bool,     // C30: every base program is also run with a syntax error at every position
    pub admin_share: u64,        // out of 10
}

pub fn corpus() -> Vec<(usize, bool, usize, u64, &'static str)> {
    // (user, session, current KG, role combo (default,k2,k3 base 4: 0 none 1 viewer 2 editor 3 owner), program)
    vec![
        // DESIGN.md §9 row 22: the witnesses of the defect repaired by the fix
        (3, true, 1, 1, "+t[(201,)]\n+t[(202,)]"),
        (3, true, 1, 1, "// c\n.kg use _internal\n+t[(203,)]"),
        (3, true, 1, 1, "// c\n.kg use _internal\n?users(A, B, C)"),
        (3, true, 1, 1, "// c\n.kg drop k2"),
        (3, true, 1, 1, "?t(X)\n+t[(204,)]"),
        (3, true, 1, 1, ".kg\n-t(100)"),
        (3, true, 1, 1 + 4 * 3, ".kg use k2\n+t[(205,)]"),
        (3, true, 1, 1 + 4 * 3, ".kg use k9\n+t[(205,)]"),
        (3, true, 1, 1 + 4 * 3, ".kg create k2\n+t[(206,)]"),
        (3, true, 1, 1 + 4 * 3, ".kg drop k2\n.kg use k2\n-t(100)"),
        (2, true, 1, 2, ".kg create k4\n+t[(207,)]"),
        (2, true, 1, 2, ".kg create k4"),
        (2, true, 2, 3 * 4, ".kg drop k2\n-r100"),
        (2, true, 2, 3 * 4 + 2, ".kg use default\n.kg drop k2"),
        (2, true, 2, 3 * 4 + 2, ".kg drop k2"),
        (3, true, 1, 1, ".kg acl list"),
        (3, true, 2, 0, ".kg acl list"),
        (3, true, 1, 1, ".kg acl\ngrant k2 bob owner"),
        (3, true, 1, 1, ".kg acl grant k2 bob owner\n+t[(208,)]"),
        (3, true, 1, 3, ".kg acl grant default eve editor\ngarbage(("),
        (3, true, 1, 3, ".kg acl revoke default eve"),
        (3, true, 0, 1, "?users(A, B, C)"),
        (3, false, 0, 1, "?users(A, B, C)"),
        (1, false, 0, 0, "?users(A, B, C)"),
        (1, true, 1, 0, ".kg use _internal"),
        (1, true, 1, 0, "+t[(209,)]\n-t(209)\n+t[(210,)]"),
        (1, true, 1, 0, "-t(211)\n+t[(211,)]"),
        (1, true, 1, 0, "+t[(212,)]\ngarbage(("),
        (1, true, 1, 0, "garbage((\n+t[(213,)]"),
        (1, true, 1, 0, ".user drop eve\ngarbage(("),
        (1, true, 1, 0, "+r214(X) <-\n  t(X)\n?r214(X)"),
        (2, true, 1, 2, "p(X) <- t(X)\n+t[(215,)]"),
        (2, true, 1, 1, "p(X) <- t(X)\n+t[(215,)]"),
        (2, false, 1, 2, "t(5)\n+t[(216,)]"),
        (3, false, 2, 0, "?t(X)"),
        (3, false, 2, 4, "?t(X)"),
        (3, true, 1, 1, "// acl-on-internal\n.kg use _internal\n?users(A, B, C)"),
        (3, true, 1, 1, "// acl-on-internal\n.kg use _internal"),
        (2, true, 1, 2, "// acl-on-internal\n+t[(218,)]\n.kg drop _internal"),
        (2, true, 1, 2, "// acl-on-internal\n.kg acl grant _internal eve owner"),
        // a trailing query (also `.rule show` / `.rel describe`) suppresses the post-processing of the request
        (2, true, 1, 3 + 3 * 16, ".kg drop k3\n.rule show r100"),
        (2, true, 1, 3 + 3 * 16, ".kg drop k3\n.rel t"),
        (2, true, 1, 3 + 3 * 16, ".kg drop k3\n.rel describe t"),
        (2, true, 1, 3 + 3 * 16, ".kg drop k3\n-t(100)\n-t(101)\n-t(102)\n.rel t"),
        (2, true, 1, 3 + 3 * 4, ".kg use k2\n?t(X)"),
        (2, true, 1, 3, ".kg create k4\n.rel t"),
        (2, true, 1, 3, ".kg create k4\n+t[(219,)]\n.rel t"),
        (3, true, 1, 1, ".rel drop t"),
        (3, true, 1, 2, ".rel drop t\n+s217(a: int)\n.rule drop r100"),
    ]
}

pub fn drive(p: &Params) {
    let args = parse_args();
    let mut rng = Rng::new(args.seed);
    let mut sink = Sink::new(&args, p.header, p.case_ty, p.checker, 100);
    let rt = tokio::runtime::Builder::new_multi_thread().worker_threads(2).enable_all().build().unwrap();

    let emit = |sink: &mut Sink, rng: &mut Rng, user: usize, session: bool, cur: usize, both: Option<usize>, combo: u64, program: &str, fixed: bool| {
        if !sink.wants(sink.next_idx()) {
            // keep the PRNG stream identical whether or not the case is wanted
            let _ = gen_setup(rng, user, combo, p.internal_bias);
            sink.push(String::new(), serde_json::json!(null), &[], None);
            return;
        }
        let mut setup = gen_setup(rng, user, combo, p.internal_bias);
        if fixed {
            setup.existing = vec![1, 2, 3];
            setup.acls.retain(|(k, u, _)| !(*k == 0 && *u == user));
            if program.contains("acl-on-internal") {
                // an admin put the caller on the ACL of _internal: still no way in
                setup.acls.push((0, user, "owner"));
            }
        }
        let rq = match both {
            Some(b) => Request { user, bound: Some(b), explicit: Some(cur), program: program.to_string() },
            None if session => Request { user, bound: Some(cur), explicit: None, program: program.to_string() },
            None => Request { user, bound: None, explicit: Some(cur), program: program.to_string() },
        };
        let out = run_case(&rt, &setup, &rq);
        let nlines = out.line_kinds.len();
        let has_err = out.line_kinds.iter().any(|k| k.is_none());
        let nonadmin = user != 1;
        let mentions_internal = program.contains("_internal") || program.contains("users") || cur == 0 || both == Some(0);
        let mut tags: Vec<&str> = vec![];
        tags.push(match out.dec {
            0 => "denied",
            1 => "rejected",
            2 => "executed",
            _ => "error",
        });
        if out.changed {
            tags.push("state-changed");
        }
        if nlines >= 2 {
            tags.push("multi-line");
        }
        if has_err {
            tags.push("syntax-error");
        }
        if mentions_internal {
            tags.push("names-internal");
        }
        tags.push(if both.is_some() { "session+explicit-kg" } else if session { "session" } else { "explicit-kg" });
        tags.push(USERS[user]);
        for k in out.line_kinds.iter().flatten() {
            sink.tally(&format!("kind:{k}"));
        }
        sink.tally(&format!("lines:{}", nlines.min(8)));
        let key_text = format!("{}|{}|{}|{:?}|{}|{:?}|{}", USERS[user], session, cur, both, combo, setup.acls, program);
        let nontrivial = match p.ctor {
            // authorization mattered: a non-admin request that was refused or that changed stored state
            "C27Case" => nonadmin && (out.dec == 0 || out.changed),
            // a non-admin request that names the internal KG / its relations or is bound to it
            "C29Case" => nonadmin && mentions_internal,
            // a multi-statement program that was rejected for a syntax error, or executed with an effect
            _ => nlines >= 2 && ((has_err && out.dec != 0) || (!has_err && out.changed)),
        };
        let desc = serde_json::json!({
            "user": USERS[user], "session": session || both.is_some(), "current_kg": KGS[cur], "session_bound_to": both.or(if session { Some(cur) } else { None }).map(|b| KGS[b]), "explicit_kg": if both.is_some() || !session { Some(KGS[cur]) } else { None }, "acls": setup.acls.iter().map(|(k,u,r)| format!("{}:{}:{}", KGS[*k], USERS[*u], r)).collect::<Vec<_>>(),
            "existing": setup.existing.iter().map(|k| KGS[*k]).collect::<Vec<_>>(),
            "program": program, "result": out.result_text.chars().take(300).collect::<String>(),
            "whole_kind": out.whole_kind, "line_kinds": out.line_kinds,
        });
        sink.push(format!("{} {}", p.ctor, out.coq), desc, &tags, if nontrivial { Some(key_text) } else { None });
    };

    for (user, session, cur, combo, program) in corpus() {
        emit(&mut sink, &mut rng, user, session, cur, None, combo, program, true);
    }
    // session id AND explicit KG: (user, session-bound KG, explicit KG, combo, program)
    let both_corpus: Vec<(usize, usize, usize, u64, &str)> = vec![
        (3, 1, 0, 1, "+t[(220,)]"),                      // viewer session on default, addressed at _internal
        (3, 1, 0, 1, ".kg\n?users(A, B, C)"),
        (3, 1, 0, 1, "?users(A, B, C)"),
        (3, 1, 2, 1, "+t[(221,)]"),                      // ... addressed at a KG without a role
        (3, 1, 2, 1, "?t(X)"),
        (3, 1, 2, 1, "?t(X)\n+t[(222,)]"),
        (2, 1, 2, 1 + 4 * 2, "?t(X)\n+t[(223,)]"),      // viewer on the session KG, editor on the explicit one
        (2, 1, 2, 2 + 4 * 1, "?t(X)\n+t[(224,)]"),      // editor on the session KG, viewer on the explicit one
        (2, 1, 2, 2 + 4 * 1, "+t[(225,)]"),
        (2, 1, 2, 1 + 4 * 2, "+t[(226,)]\n.kg use k3"),
        (2, 0, 2, 4 * 2, "+t[(227,)]"),                  // session (artificially) bound to _internal, explicit KG allowed
        (2, 0, 2, 4 * 2, "?users(A, B, C)"),
        (2, 0, 2, 4 * 2, "?t(X)"),
        (2, 4, 2, 4 * 2, "+t[(228,)]"),                  // session bound to a missing KG
        (2, 1, 4, 2, "+t[(229,)]"),                      // explicit KG missing
        (1, 1, 0, 0, "?users(A, B, C)"),                 // admin
    ];
    for (user, bound, explicit, combo, program) in both_corpus {
        emit(&mut sink, &mut rng, user, true, explicit, Some(bound), combo, program, true);
    }

    let mut produced = 0usize;
    let mut round = 0u64;
    while produced < args.n {
        round += 1;
        let mut g = Gen::new();
        let user = {
            let x = rng.below(10);
            if x < p.admin_share {
                1
            } else if rng.chance(1, 2) {
                2
            } else {
                3
            }
        };
        let combo = round % 64; // every combination of {none, viewer, editor, owner} on default, k2, k3
        let session = rng.chance(3, 4);
        // one request in five carries a session id AND an explicit KG, drawn independently
        let both: Option<usize> = if rng.chance(1, 5) {
            Some(match rng.below(10) {
                0 => 0,
                1 => 4,
                _ => 1 + rng.below(3) as usize,
            })
        } else {
            None
        };
        let cur = match rng.below(20) {
            0 => 0,                       // bound to / addressed at _internal
            1 => 4,                       // a KG that does not exist
            2 | 3 if p.internal_bias >= 5 => 0,
            _ => 1 + rng.below(3) as usize,
        };
        // statements
        let n = 1 + rng.below(6) as usize;
        let mut stmts: Vec<String> = vec![];
        for i in 0..n {
            let mut x = rng.below(20);
            if p.internal_bias >= 5 && x < 6 {
                x = 12 + x % 4; // C29: more KG commands
            }
            let s = if x < 8 {
                g.write_stmt(&mut rng)
            } else if x < 12 {
                g.read_stmt(&mut rng)
            } else if x < 16 {
                g.kg_stmt(&mut rng, p.internal_bias)
            } else if x < 18 && (i == 0 || rng.chance(1, 3)) {
                g.direct_stmt(&mut rng, p.internal_bias, user != 1)
            } else if x == 19 && !p.inject_errors && rng.chance(1, 2) {
                g.bad_stmt(&mut rng)
            } else {
                g.write_stmt(&mut rng)
            };
            stmts.push(s);
        }
        let program = g.render(&mut rng, &stmts);
        emit(&mut sink, &mut rng, user, session, cur, both, combo, &program, false);
        produced += 1;
        if p.inject_errors {
            // the same program with a syntax error injected at every position
            for pos in 0..=stmts.len() {
                if produced >= args.n {
                    break;
                }
                let mut v = stmts.clone();
                v.insert(pos, g.bad_stmt(&mut rng));
                let program = g.render(&mut rng, &v);
                emit(&mut sink, &mut rng, user, session, cur, both, combo, &program, false);
                produced += 1;
            }
        } else if rng.chance(1, 8) {
            // malformed stream: a few arbitrary printable lines
            let mut junk = String::new();
            for _ in 0..1 + rng.below(3) {
                let len = 1 + rng.below(12);
                for _ in 0..len {
                    junk.push(*rng.pick(&['+', '-', '?', '.', '(', ')', '[', ']', ',', ' ', 't', 'k', 'g', '_', '1', '<', ':', '/', '%', '"']));
                }
                junk.push('\n');
            }
            emit(&mut sink, &mut rng, user, session, cur, both, combo, &junk, false);
            produced += 1;
        }
    }
    sink.finish();
}
