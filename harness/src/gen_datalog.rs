//! Shared Datalog program generator for Group A (C01, C02, C04, C06, C07, C08, C34).
//! Programs are generated as an AST that prints both as IQL text (for the engine) and as a Coq
//! term of type `program` (Model/Datalog.v). Shape-first: a dependency-graph shape is drawn first
//! (chain, diamond, self-loop, 2-cycle, negation below recursion, ...), then filled with clauses.
use crate::{coq_list, coq_n, coq_z, Rng};
use inputlayer::value::{Tuple, Value};

#[derive(Clone, Debug, PartialEq)]
pub enum Term {
    Var(u32),
    Int(i64),
    Str(String),
    Wild,
}
#[derive(Clone, Copy, Debug, PartialEq)]
pub enum CmpOp {
    Eq,
    Ne,
    Lt,
    Le,
    Gt,
    Ge,
}
#[derive(Clone, Debug, PartialEq)]
pub enum AExp {
    Var(u32),
    Const(i64),
    Add(Box<AExp>, Box<AExp>),
    Sub(Box<AExp>, Box<AExp>),
    Mul(Box<AExp>, Box<AExp>),
}
#[derive(Clone, Debug, PartialEq)]
pub enum Lit {
    Pos(u32, Vec<Term>),
    Neg(u32, Vec<Term>),
    Cmp(CmpOp, Term, Term),
    Assign(u32, AExp),
}
#[derive(Clone, Copy, Debug, PartialEq)]
pub enum AggFun {
    Count,
    Sum,
    Min,
    Max,
    CountDistinct,
}
#[derive(Clone, Debug, PartialEq)]
pub enum HTerm {
    Var(u32),
    Int(i64),
    Str(String),
    Agg(AggFun, u32),
}
#[derive(Clone, Debug, PartialEq)]
pub struct Clause {
    pub head: u32,
    pub args: Vec<HTerm>,
    pub body: Vec<Lit>,
}
#[derive(Clone, Debug)]
pub struct Program {
    pub clauses: Vec<Clause>,
}
pub type Edb = Vec<(u32, Vec<Tuple>)>;

/// relation ids: 0..=9 EDB (`e<i>`), 10..=89 IDB (`p<i>`), 99 the query head `q`
pub fn rel_name(r: u32) -> String {
    if r < 10 {
        format!("e{}", r)
    } else if r == 99 {
        // the name the protocol handler gives the query rule (Magic Sets only look at this head)
        "__query__".to_string()
    } else {
        format!("p{}", r)
    }
}
pub fn var_name(v: u32) -> String {
    format!("X{}", v)
}

impl Term {
    pub fn iql(&self) -> String {
        match self {
            Term::Var(v) => var_name(*v),
            Term::Int(i) => format!("{}", i),
            Term::Str(s) => format!("\"{}\"", s),
            Term::Wild => "_".into(),
        }
    }
    pub fn coq(&self) -> String {
        match self {
            Term::Var(v) => format!("TVar {}", coq_n(*v as u128)),
            Term::Int(i) => format!("TConst (VI64 {})", coq_z(*i as i128)),
            Term::Str(s) => format!("TConst (VStr {})", crate::coq_str(s)),
            Term::Wild => "TWild".into(),
        }
    }
}
impl CmpOp {
    pub fn iql(&self) -> &'static str {
        match self {
            CmpOp::Eq => "=",
            CmpOp::Ne => "!=",
            CmpOp::Lt => "<",
            CmpOp::Le => "<=",
            CmpOp::Gt => ">",
            CmpOp::Ge => ">=",
        }
    }
    pub fn coq(&self) -> &'static str {
        match self {
            CmpOp::Eq => "OEq",
            CmpOp::Ne => "ONe",
            CmpOp::Lt => "OLt",
            CmpOp::Le => "OLe",
            CmpOp::Gt => "OGt",
            CmpOp::Ge => "OGe",
        }
    }
}
impl AExp {
    pub fn iql(&self) -> String {
        match self {
            AExp::Var(v) => var_name(*v),
            AExp::Const(c) => format!("{}", c),
            AExp::Add(a, b) => format!("{} + {}", a.iql_paren(), b.iql_paren()),
            AExp::Sub(a, b) => format!("{} - {}", a.iql_paren(), b.iql_paren()),
            AExp::Mul(a, b) => format!("{} * {}", a.iql_paren(), b.iql_paren()),
        }
    }
    fn iql_paren(&self) -> String {
        match self {
            AExp::Var(_) | AExp::Const(_) => self.iql(),
            _ => format!("({})", self.iql()),
        }
    }
    pub fn coq(&self) -> String {
        match self {
            AExp::Var(v) => format!("(AVar {})", coq_n(*v as u128)),
            AExp::Const(c) => format!("(AConst {})", coq_z(*c as i128)),
            AExp::Add(a, b) => format!("(AAdd {} {})", a.coq(), b.coq()),
            AExp::Sub(a, b) => format!("(ASub {} {})", a.coq(), b.coq()),
            AExp::Mul(a, b) => format!("(AMul {} {})", a.coq(), b.coq()),
        }
    }
}
fn terms_iql(ts: &[Term]) -> String {
    ts.iter().map(|t| t.iql()).collect::<Vec<_>>().join(", ")
}
fn terms_coq(ts: &[Term]) -> String {
    coq_list(&ts.iter().map(|t| t.coq()).collect::<Vec<_>>())
}
impl Lit {
    pub fn iql(&self) -> String {
        match self {
            Lit::Pos(r, a) => format!("{}({})", rel_name(*r), terms_iql(a)),
            Lit::Neg(r, a) => format!("!{}({})", rel_name(*r), terms_iql(a)),
            Lit::Cmp(op, l, r) => format!("{} {} {}", l.iql(), op.iql(), r.iql()),
            Lit::Assign(v, e) => format!("{} = {}", var_name(*v), e.iql()),
        }
    }
    pub fn coq(&self) -> String {
        match self {
            Lit::Pos(r, a) => format!("LPos {} {}", coq_n(*r as u128), terms_coq(a)),
            Lit::Neg(r, a) => format!("LNeg {} {}", coq_n(*r as u128), terms_coq(a)),
            Lit::Cmp(op, l, r) => format!("LCmp {} ({}) ({})", op.coq(), l.coq(), r.coq()),
            Lit::Assign(v, e) => format!("LAssign {} {}", coq_n(*v as u128), e.coq()),
        }
    }
}
impl AggFun {
    pub fn iql(&self) -> &'static str {
        match self {
            AggFun::Count => "count",
            AggFun::Sum => "sum",
            AggFun::Min => "min",
            AggFun::Max => "max",
            AggFun::CountDistinct => "count_distinct",
        }
    }
    pub fn coq(&self) -> &'static str {
        match self {
            AggFun::Count => "ACount",
            AggFun::Sum => "ASum",
            AggFun::Min => "AMin",
            AggFun::Max => "AMax",
            AggFun::CountDistinct => "ACountDistinct",
        }
    }
}
impl HTerm {
    pub fn iql(&self) -> String {
        match self {
            HTerm::Var(v) => var_name(*v),
            HTerm::Int(i) => format!("{}", i),
            HTerm::Str(s) => format!("\"{}\"", s),
            HTerm::Agg(f, v) => format!("{}<{}>", f.iql(), var_name(*v)),
        }
    }
    pub fn coq(&self) -> String {
        match self {
            HTerm::Var(v) => format!("HVar {}", coq_n(*v as u128)),
            HTerm::Int(i) => format!("HConst (VI64 {})", coq_z(*i as i128)),
            HTerm::Str(s) => format!("HConst (VStr {})", crate::coq_str(s)),
            HTerm::Agg(f, v) => format!("HAgg {} {}", f.coq(), coq_n(*v as u128)),
        }
    }
}
impl Clause {
    pub fn iql(&self) -> String {
        format!(
            "{}({}) <- {}",
            rel_name(self.head),
            self.args.iter().map(|a| a.iql()).collect::<Vec<_>>().join(", "),
            self.body.iter().map(|l| l.iql()).collect::<Vec<_>>().join(", ")
        )
    }
    pub fn coq(&self) -> String {
        format!(
            "{{| chead := {}; cargs := {}; cbody := {} |}}",
            coq_n(self.head as u128),
            coq_list(&self.args.iter().map(|a| a.coq()).collect::<Vec<_>>()),
            coq_list(&self.body.iter().map(|l| l.coq()).collect::<Vec<_>>())
        )
    }
    pub fn refs(&self) -> Vec<(u32, bool)> {
        self.body
            .iter()
            .filter_map(|l| match l {
                Lit::Pos(r, _) => Some((*r, false)),
                Lit::Neg(r, _) => Some((*r, true)),
                _ => None,
            })
            .collect()
    }
}
impl Program {
    pub fn iql(&self) -> String {
        self.clauses.iter().map(|c| c.iql()).collect::<Vec<_>>().join("\n")
    }
    pub fn coq(&self) -> String {
        coq_list(&self.clauses.iter().map(|c| c.coq()).collect::<Vec<_>>())
    }
    pub fn heads(&self) -> Vec<u32> {
        let mut v = vec![];
        for c in &self.clauses {
            if !v.contains(&c.head) {
                v.push(c.head);
            }
        }
        v
    }
    pub fn has_neg(&self) -> bool {
        self.clauses.iter().any(|c| c.refs().iter().any(|r| r.1))
    }
    pub fn has_agg(&self) -> bool {
        self.clauses.iter().any(|c| c.args.iter().any(|a| matches!(a, HTerm::Agg(..))))
    }
    pub fn self_recursive(&self) -> bool {
        self.clauses.iter().any(|c| c.refs().iter().any(|r| r.0 == c.head))
    }
    /// two distinct heads that reach each other
    pub fn mutual(&self) -> bool {
        let hs = self.heads();
        let reach = |a: u32| -> Vec<u32> {
            let mut seen: Vec<u32> = vec![];
            let mut front = vec![a];
            while let Some(x) = front.pop() {
                for c in self.clauses.iter().filter(|c| c.head == x) {
                    for (r, _) in c.refs() {
                        if hs.contains(&r) && !seen.contains(&r) {
                            seen.push(r);
                            front.push(r);
                        }
                    }
                }
            }
            seen
        };
        for &a in &hs {
            for b in reach(a) {
                if a != b && reach(b).contains(&a) {
                    return true;
                }
            }
        }
        false
    }
}

pub fn edb_coq(edb: &Edb) -> String {
    let v: Vec<String> = edb.iter().map(|(r, ts)| format!("({}, {})", coq_n(*r as u128), crate::coq_tuples(ts))).collect();
    coq_list(&v)
}
pub fn edb_json(edb: &Edb) -> serde_json::Value {
    let m: Vec<serde_json::Value> = edb
        .iter()
        .map(|(r, ts)| serde_json::json!({"rel": rel_name(*r), "tuples": ts.iter().map(|t| format!("{:?}", t.values())).collect::<Vec<_>>()}))
        .collect();
    serde_json::Value::Array(m)
}

pub struct GenCfg {
    pub allow_neg: bool,
    pub allow_agg: bool,
    pub allow_mutual: bool,
    pub allow_wild: bool,
    pub allow_arith: bool,
    pub allow_strings: bool,
}
impl Default for GenCfg {
    fn default() -> Self {
        GenCfg { allow_neg: true, allow_agg: false, allow_mutual: true, allow_wild: true, allow_arith: true, allow_strings: true }
    }
}

pub const EDB_ARITY: [usize; 4] = [2, 2, 1, 3];

pub fn gen_edb(r: &mut Rng, strings: bool) -> Edb {
    let dom = r.range(2, 4);
    let mut edb = vec![];
    for (i, &ar) in EDB_ARITY.iter().enumerate() {
        let n = if r.chance(1, 12) { 0 } else { r.range(3, 9) };
        let mut ts: Vec<Tuple> = vec![];
        for _ in 0..n {
            let t = Tuple::new(
                (0..ar)
                    .map(|c| {
                        if strings && i == 3 && c == 2 {
                            Value::String(["a", "b", "c"][r.below(3) as usize].into())
                        } else {
                            Value::Int64(r.range(0, dom))
                        }
                    })
                    .collect(),
            );
            if !ts.contains(&t) {
                ts.push(t);
            }
        }
        edb.push((i as u32, ts));
    }
    edb
}

struct Ctx<'a> {
    r: &'a mut Rng,
    cfg: &'a GenCfg,
    /// this program uses the string column: then no arithmetic and only =/!= comparisons
    /// (arithmetic or ordering on strings is unspecified)
    strings: bool,
    /// an atom (filtered scan with a constant) that is planted into several rules so that subplan
    /// sharing finds a common subexpression
    shared: Option<(u32, Vec<Term>)>,
    arity: std::collections::BTreeMap<u32, usize>,
}

impl<'a> Ctx<'a> {
    fn atom(&mut self, rel: u32, bound: &mut Vec<u32>, fresh_ok: bool) -> Vec<Term> {
        let ar = self.arity[&rel];
        let mut args = vec![];
        for c in 0..ar {
            let is_str_col = rel == 3 && c == 2 && self.strings;
            let roll = self.r.below(20);
            if roll == 0 && self.cfg.allow_wild {
                args.push(Term::Wild);
            } else if roll <= 1 {
                if is_str_col {
                    args.push(Term::Str(["a", "b"][self.r.below(2) as usize].into()));
                } else {
                    args.push(Term::Int(self.r.range(0, 3)));
                }
            } else if !bound.is_empty() && (self.r.chance(1, 2) || !fresh_ok) {
                args.push(Term::Var(*self.r.pick(bound)));
            } else {
                let v = (0..6).find(|v| !bound.contains(v)).unwrap_or(0);
                if !bound.contains(&v) {
                    bound.push(v);
                }
                args.push(Term::Var(v));
            }
        }
        args
    }

    /// one clause for `head`; positive atoms drawn from `pos_rels`, negated ones from `neg_rels`
    fn clause(&mut self, head: u32, pos_rels: &[u32], neg_rels: &[u32], must_use: Option<u32>, arith: bool) -> Clause {
        let mut bound: Vec<u32> = vec![];
        let mut body = vec![];
        let npos = match self.r.below(20) { 0..=7 => 1, 8..=16 => 2, _ => 3 } as usize;
        let mut rels: Vec<u32> = (0..npos).map(|_| *self.r.pick(pos_rels)).collect();
        if let Some(m) = must_use {
            let k = self.r.below(rels.len() as u64) as usize;
            rels[k] = m;
        }
        if let Some((srel, sargs)) = self.shared.clone() {
            if self.r.chance(3, 5) {
                for t in &sargs {
                    if let Term::Var(v) = t {
                        if !bound.contains(v) {
                            bound.push(*v);
                        }
                    }
                }
                body.push(Lit::Pos(srel, sargs));
            }
        }
        for rel in rels {
            let a = self.atom(rel, &mut bound, true);
            body.push(Lit::Pos(rel, a));
        }
        if bound.is_empty() {
            // make sure at least one variable is bound
            let rel = *self.r.pick(pos_rels);
            let ar = self.arity[&rel];
            let a: Vec<Term> = (0..ar).map(|c| Term::Var(c as u32)).collect();
            for c in 0..ar {
                bound.push(c as u32);
            }
            body.push(Lit::Pos(rel, a));
        }
        // assignment V = X + c (V fresh), only where the caller allows arithmetic
        let int_bound: Vec<u32> = bound.clone();
        if arith && self.cfg.allow_arith && !self.strings && self.r.chance(1, 4) {
            let x = *self.r.pick(&int_bound);
            let v = (0..8).find(|v| !bound.contains(v)).unwrap();
            let e = match self.r.below(3) {
                0 => AExp::Add(Box::new(AExp::Var(x)), Box::new(AExp::Const(self.r.range(0, 2)))),
                1 => AExp::Sub(Box::new(AExp::Var(x)), Box::new(AExp::Const(self.r.range(0, 2)))),
                _ => {
                    let y = *self.r.pick(&int_bound);
                    AExp::Mul(Box::new(AExp::Var(x)), Box::new(AExp::Var(y)))
                }
            };
            body.push(Lit::Assign(v, e));
            bound.push(v);
        }
        if self.r.chance(1, 4) {
            let x = *self.r.pick(&bound);
            let op = if self.strings { *self.r.pick(&[CmpOp::Eq, CmpOp::Ne]) } else { *self.r.pick(&[CmpOp::Eq, CmpOp::Ne, CmpOp::Lt, CmpOp::Le, CmpOp::Gt, CmpOp::Ge]) };
            let rhs = if self.r.chance(1, 2) { Term::Int(self.r.range(0, 4)) } else { Term::Var(*self.r.pick(&bound)) };
            body.push(Lit::Cmp(op, Term::Var(x), rhs));
        }
        if self.cfg.allow_neg && !neg_rels.is_empty() && self.r.chance(1, 3) {
            let rel = *self.r.pick(neg_rels);
            let mut b2 = bound.clone();
            let mut a = self.atom(rel, &mut b2, false);
            // negated atoms must be range-restricted: no fresh variables
            for t in a.iter_mut() {
                if let Term::Var(v) = t {
                    if !bound.contains(v) {
                        *t = Term::Var(*self.r.pick(&bound));
                    }
                }
            }
            // the engine rejects a negated atom that shares no variable with the positive atoms
            // ("Negation requires at least one shared variable"): keep at least one variable
            if !a.iter().any(|t| matches!(t, Term::Var(_))) {
                let k = self.r.below(a.len() as u64) as usize;
                a[k] = Term::Var(*self.r.pick(&bound));
            }
            body.push(Lit::Neg(rel, a));
        }
        let ar = self.arity[&head];
        let args: Vec<HTerm> = (0..ar)
            .map(|_| if self.r.chance(1, 10) { HTerm::Int(self.r.range(0, 3)) } else { HTerm::Var(*self.r.pick(&bound)) })
            .collect();
        Clause { head, args, body }
    }
}

/// A random stratified program whose last clause is the query `q(..) <- ..`.
pub fn gen_program(r: &mut Rng, cfg: &GenCfg) -> (Program, Vec<&'static str>) {
    let mut tags = vec![];
    let mut arity = std::collections::BTreeMap::new();
    for (i, a) in EDB_ARITY.iter().enumerate() {
        arity.insert(i as u32, *a);
    }
    let nheads = r.range(1, 4) as u32;
    let heads: Vec<u32> = (0..nheads).map(|i| 10 + i).collect();
    for &h in &heads {
        arity.insert(h, r.range(1, 3) as usize);
    }
    arity.insert(99, r.range(1, 3) as usize);
    // shape
    let mutual = cfg.allow_mutual && nheads >= 2 && r.chance(1, 8);
    let mut self_rec: Vec<bool> = heads.iter().map(|_| r.chance(1, 3)).collect();
    if mutual {
        tags.push("mutual");
        self_rec[0] = false;
    }
    let edbs: Vec<u32> = vec![0, 1, 2, 3];
    let strings = cfg.allow_strings && r.chance(1, 3);
    if strings {
        tags.push("strings");
    }
    let shared = if r.chance(1, 3) {
        tags.push("shared-subplan");
        let c = r.range(0, 2);
        Some(match r.below(3) {
            0 => (0u32, vec![Term::Var(0), Term::Int(c)]),
            1 => (1u32, vec![Term::Int(c), Term::Var(0)]),
            _ => (0u32, vec![Term::Var(0), Term::Var(1)]),
        })
    } else {
        None
    };
    let mut cx = Ctx { r, cfg, strings, shared, arity };
    let mut clauses = vec![];
    for (i, &h) in heads.iter().enumerate() {
        let lower: Vec<u32> = heads[..i].to_vec();
        let mut pos: Vec<u32> = edbs.clone();
        pos.extend(lower.iter().cloned());
        pos.extend(lower.iter().cloned()); // bias toward IDB dependencies
        // in the 2-cycle shape the first two heads are one SCC: negating a lower head there would be
        // recursion through negation, so they only negate stored relations
        // negation prefers derived relations (weight 3): that is where evaluation order matters
        let neg: Vec<u32> = if mutual && i <= 1 {
            edbs.clone()
        } else {
            edbs.iter().cloned().chain(lower.iter().cloned()).chain(lower.iter().cloned()).chain(lower.iter().cloned()).collect()
        };
        let nclauses = cx.r.range(1, 3);
        let is_rec = self_rec[i];
        for k in 0..nclauses {
            let recursive_clause = is_rec && (k > 0 || nclauses == 1 && cx.r.chance(1, 6));
            let c = if recursive_clause {
                let mut p2 = pos.clone();
                p2.push(h);
                cx.clause(h, &p2, &neg, Some(h), false)
            } else if mutual && i == 0 && k == 0 {
                // forward reference to the next head: closes a 2-cycle with heads[1]
                let mut p2 = pos.clone();
                p2.push(heads[1]);
                cx.clause(h, &p2, &[], Some(heads[1]), false)
            } else if mutual && i == 1 && k == 0 {
                cx.clause(h, &pos, &[], Some(heads[0]), false)
            } else {
                cx.clause(h, &pos, &neg, None, !is_rec)
            };
            clauses.push(c);
        }
        if is_rec && clauses.iter().any(|c| c.head == h && c.refs().iter().any(|x| x.0 == h)) {
            if !tags.contains(&"self-recursive") {
                tags.push("self-recursive");
            }
        }
    }
    // query
    let mut pos: Vec<u32> = heads.clone();
    pos.extend(heads.iter().cloned());
    pos.push(*cx.r.pick(&edbs));
    let neg: Vec<u32> = edbs.iter().cloned().chain(heads.iter().cloned()).chain(heads.iter().cloned()).collect();
    let last = *heads.last().unwrap();
    let q = cx.clause(99, &pos, &neg, Some(last), true);
    clauses.push(q);
    if cx.r.chance(1, 3) {
        // the query relation itself defined by two rules (a Union at the answer node)
        let mut pos2: Vec<u32> = edbs.clone();
        pos2.extend(heads.iter().cloned());
        let q2 = cx.clause(99, &pos2, &neg, None, true);
        clauses.push(q2);
    }
    if cx.r.chance(1, 2) {
        // rule order is irrelevant to the meaning: exercise orders where a rule precedes what it depends on
        let n = clauses.iter().position(|c| c.head == 99).unwrap();
        let mut head_part = clauses[..n].to_vec();
        cx.r.shuffle(&mut head_part);
        head_part.extend(clauses[n..].iter().cloned());
        clauses = head_part;
        tags.push("shuffled-rules");
    }
    let p = Program { clauses };
    if p.has_neg() {
        tags.push("negation");
    }
    if p.clauses.iter().any(|c| c.body.iter().any(|l| matches!(l, Lit::Assign(..)))) {
        tags.push("arith");
    }
    if p.clauses.iter().any(|c| c.body.iter().any(|l| matches!(l, Lit::Pos(_, a) | Lit::Neg(_, a) if a.contains(&Term::Wild)))) {
        tags.push("wildcard");
    }
    let hs = p.heads();
    if hs.iter().any(|h| p.clauses.iter().filter(|c| c.head == *h).count() > 1) {
        tags.push("multi-clause-head");
    }
    (p, tags)
}

pub fn tuples_key(ts: &[Tuple]) -> String {
    let mut v: Vec<String> = ts.iter().map(|t| format!("{:?}", t.values())).collect();
    v.sort();
    v.join(";")
}


/// A family built around ONE filtered scan `e0(X, c)` that occurs in several rules (what subplan
/// sharing extracts into a shared view), over an EDB in which that scan has 6-12 rows; the query
/// negates, joins or aggregates over it. Returns the program and its EDB.
pub fn gen_shared_family(r: &mut Rng) -> (Program, Edb, Vec<&'static str>) {
    use Lit::*;
    let c = r.range(0, 2);
    let n = r.range(6, 12);
    let mut e0: Vec<Tuple> = (0..n).map(|x| Tuple::new(vec![Value::Int64(x), Value::Int64(c)])).collect();
    for x in 0..r.range(2, 5) {
        e0.push(Tuple::new(vec![Value::Int64(20 + x), Value::Int64(c + 1)]));
    }
    let e2: Vec<Tuple> = (0..n + 3).filter(|_| r.chance(2, 3)).map(|x| Tuple::new(vec![Value::Int64(x)])).collect();
    let shared = |v: u32| Pos(0, vec![Term::Var(v), Term::Int(c)]);
    let k = r.range(1, n - 2);
    let mut clauses = vec![
        Clause { head: 10, args: vec![HTerm::Var(0)], body: vec![shared(0), Cmp(CmpOp::Gt, Term::Var(0), Term::Int(k))] },
        Clause { head: 11, args: vec![HTerm::Var(0)], body: vec![shared(0), Cmp(CmpOp::Le, Term::Var(0), Term::Int(r.range(0, n)))] },
    ];
    let q = match r.below(4) {
        0 => Clause { head: 99, args: vec![HTerm::Agg(AggFun::Count, 0)], body: vec![shared(0)] },
        1 => Clause { head: 99, args: vec![HTerm::Var(0)], body: vec![Pos(0, vec![Term::Var(0), Term::Wild]), Neg(10, vec![Term::Var(0)])] },
        2 => Clause { head: 99, args: vec![HTerm::Var(0)], body: vec![Pos(2, vec![Term::Var(0)]), Neg(11, vec![Term::Var(0)]), Neg(10, vec![Term::Var(0)])] },
        _ => Clause { head: 99, args: vec![HTerm::Var(0), HTerm::Var(1)], body: vec![Pos(10, vec![Term::Var(0)]), Pos(11, vec![Term::Var(1)]), Cmp(CmpOp::Lt, Term::Var(1), Term::Var(0))] },
    };
    if r.chance(1, 2) {
        clauses.swap(0, 1);
    }
    clauses.push(q);
    (Program { clauses }, vec![(0, e0), (2, e2)], vec!["shared-family"])
}


/// A recursive binary relation (base and step possibly over DIFFERENT stored relations, left- or
/// right-linear) queried with one argument bound to a constant, in exactly the form the handler
/// builds (`__query__(..) <- reach(X0, X1), X0 = c`): the shape Magic Sets rewrites.
pub fn gen_bound_rec_family(r: &mut Rng) -> (Program, Edb, Vec<&'static str>) {
    use Lit::*;
    let ea = r.below(2) as u32;
    let eb = if r.chance(2, 3) { 1 - ea } else { ea };
    let v = |i: u32| Term::Var(i);
    let base = Clause { head: 10, args: vec![HTerm::Var(0), HTerm::Var(1)], body: vec![Pos(ea, vec![v(0), v(1)])] };
    let step = if r.chance(2, 3) {
        Clause { head: 10, args: vec![HTerm::Var(0), HTerm::Var(2)], body: vec![Pos(10, vec![v(0), v(1)]), Pos(eb, vec![v(1), v(2)])] }
    } else {
        Clause { head: 10, args: vec![HTerm::Var(0), HTerm::Var(2)], body: vec![Pos(eb, vec![v(0), v(1)]), Pos(10, vec![v(1), v(2)])] }
    };
    let c = r.range(0, 3);
    let bound = if r.chance(2, 3) { 0 } else { 1 };
    let q = Clause { head: 99, args: vec![HTerm::Var(0), HTerm::Var(1)], body: vec![Pos(10, vec![v(0), v(1)]), Cmp(CmpOp::Eq, v(bound), Term::Int(c))] };
    let mut clauses = vec![base, step];
    if r.chance(1, 3) {
        clauses.swap(0, 1);
    }
    clauses.push(q);
    let mut edb = vec![];
    for rel in 0..2u32 {
        let mut ts: Vec<Tuple> = vec![];
        for _ in 0..r.range(3, 8) {
            let t = Tuple::new(vec![Value::Int64(r.range(0, 4)), Value::Int64(r.range(0, 4))]);
            if !ts.contains(&t) {
                ts.push(t);
            }
        }
        edb.push((rel, ts));
    }
    (Program { clauses }, edb, vec!["bound-recursive-query", "self-recursive"])
}


/// A head that depends on another derived relation ONLY through negation, with the negated relation's
/// rules written AFTER the rule that negates it (rule order is not part of the meaning); the negated
/// relation is a filter, a join or a recursive closure.
pub fn gen_neg_order_family(r: &mut Rng) -> (Program, Edb, Vec<&'static str>) {
    use Lit::*;
    let v = |i: u32| Term::Var(i);
    let user = Clause { head: 11, args: vec![HTerm::Var(0)], body: vec![Pos(2, vec![v(0)]), Neg(10, vec![v(0)])] };
    let mut defs = match r.below(3) {
        0 => vec![Clause { head: 10, args: vec![HTerm::Var(0)], body: vec![Pos(0, vec![v(0), Term::Wild])] }],
        1 => vec![Clause { head: 10, args: vec![HTerm::Var(0)], body: vec![Pos(0, vec![v(0), v(1)]), Pos(1, vec![v(1), Term::Wild])] }],
        _ => vec![
            Clause { head: 10, args: vec![HTerm::Var(1)], body: vec![Pos(0, vec![Term::Int(0), v(1)])] },
            Clause { head: 10, args: vec![HTerm::Var(1)], body: vec![Pos(10, vec![v(0)]), Pos(1, vec![v(0), v(1)])] },
        ],
    };
    let q = Clause { head: 99, args: vec![HTerm::Var(0)], body: vec![Pos(11, vec![v(0)])] };
    let mut clauses = vec![];
    if r.chance(3, 4) {
        clauses.push(user);
        clauses.append(&mut defs);
    } else {
        clauses.append(&mut defs);
        clauses.push(user);
    }
    clauses.push(q);
    let mut edb = vec![];
    for rel in 0..2u32 {
        let mut ts: Vec<Tuple> = vec![];
        for _ in 0..r.range(2, 6) {
            let t = Tuple::new(vec![Value::Int64(r.range(0, 4)), Value::Int64(r.range(0, 4))]);
            if !ts.contains(&t) {
                ts.push(t);
            }
        }
        edb.push((rel, ts));
    }
    edb.push((2, (0..5).filter(|_| r.chance(3, 4)).map(|x| Tuple::new(vec![Value::Int64(x)])).collect()));
    (Program { clauses }, edb, vec!["negation", "negated-relation-defined-later"])
}


/// The ANSWER relation itself is recursive (the last rules of the program define a recursive head):
/// plain binary transitive closure (the engine's fast path), its variants, and unary reachability with
/// an optional negated stored relation; graphs with shortcut edges and cycles.
pub fn gen_rec_query_family(r: &mut Rng) -> (Program, Edb, Vec<&'static str>) {
    use Lit::*;
    let v = |i: u32| Term::Var(i);
    let clauses = match r.below(4) {
        0 => vec![
            Clause { head: 99, args: vec![HTerm::Var(0), HTerm::Var(1)], body: vec![Pos(0, vec![v(0), v(1)])] },
            Clause { head: 99, args: vec![HTerm::Var(0), HTerm::Var(2)], body: vec![Pos(0, vec![v(0), v(1)]), Pos(99, vec![v(1), v(2)])] },
        ],
        1 => vec![
            Clause { head: 99, args: vec![HTerm::Var(0), HTerm::Var(1)], body: vec![Pos(0, vec![v(0), v(1)])] },
            Clause { head: 99, args: vec![HTerm::Var(0), HTerm::Var(2)], body: vec![Pos(99, vec![v(0), v(1)]), Pos(1, vec![v(1), v(2)])] },
        ],
        2 => vec![
            Clause { head: 99, args: vec![HTerm::Var(0)], body: vec![Pos(2, vec![v(0)])] },
            Clause { head: 99, args: vec![HTerm::Var(1)], body: vec![Pos(99, vec![v(0)]), Pos(0, vec![v(0), v(1)])] },
        ],
        _ => vec![
            Clause { head: 99, args: vec![HTerm::Var(0)], body: vec![Pos(2, vec![v(0)])] },
            Clause { head: 99, args: vec![HTerm::Var(1)], body: vec![Pos(99, vec![v(0)]), Pos(0, vec![v(0), v(1)]), Neg(1, vec![v(1), v(1)])] },
        ],
    };
    let n = r.range(4, 7);
    let mut e0: Vec<Tuple> = (0..n - 1).map(|x| Tuple::new(vec![Value::Int64(x), Value::Int64(x + 1)])).collect();
    for _ in 0..r.range(1, 4) {
        // shortcut edges, back edges (cycles), self loops
        let t = Tuple::new(vec![Value::Int64(r.range(0, n - 1)), Value::Int64(r.range(0, n - 1))]);
        if !e0.contains(&t) {
            e0.push(t);
        }
    }
    let mut e1: Vec<Tuple> = vec![];
    for _ in 0..r.range(1, 5) {
        let t = Tuple::new(vec![Value::Int64(r.range(0, n - 1)), Value::Int64(r.range(0, n - 1))]);
        if !e1.contains(&t) {
            e1.push(t);
        }
    }
    let e2: Vec<Tuple> = vec![Tuple::new(vec![Value::Int64(r.range(0, 1))])];
    (Program { clauses }, vec![(0, e0), (1, e1), (2, e2)], vec!["recursive-answer-relation", "self-recursive"])
}


/// Joins on TWO variables whose columns come in different orders in the two atoms
/// (`e0(A, B), e3(B, A, C)`), with a projection of a non-key column; optionally a filter.
pub fn gen_multikey_family(r: &mut Rng) -> (Program, Edb, Vec<&'static str>) {
    use Lit::*;
    let v = |i: u32| Term::Var(i);
    let right = match r.below(3) {
        0 => vec![v(1), v(0), v(2)],
        1 => vec![v(2), v(1), v(0)],
        _ => vec![v(1), v(2), v(0)],
    };
    let mut body = if r.chance(1, 2) { vec![Pos(0, vec![v(0), v(1)]), Pos(3, right)] } else { vec![Pos(3, right), Pos(0, vec![v(0), v(1)])] };
    if r.chance(1, 3) {
        body.push(Cmp(CmpOp::Ge, v(2), Term::Int(r.range(0, 2))));
    }
    let args = match r.below(3) {
        0 => vec![HTerm::Var(2)],
        1 => vec![HTerm::Var(0), HTerm::Var(2)],
        _ => vec![HTerm::Var(2), HTerm::Var(1), HTerm::Var(0)],
    };
    let mut e0: Vec<Tuple> = vec![];
    let mut e3: Vec<Tuple> = vec![];
    for _ in 0..r.range(4, 9) {
        let (a, b, c) = (r.range(0, 3), r.range(0, 3), r.range(0, 4));
        let t = Tuple::new(vec![Value::Int64(a), Value::Int64(b)]);
        if !e0.contains(&t) {
            e0.push(t);
        }
        for perm in [[b, a, c], [c, b, a], [b, c, a]] {
            if r.chance(1, 2) {
                let t3 = Tuple::new(perm.iter().map(|x| Value::Int64(*x)).collect());
                if !e3.contains(&t3) {
                    e3.push(t3);
                }
            }
        }
    }
    (Program { clauses: vec![Clause { head: 99, args, body }] }, vec![(0, e0), (3, e3)], vec!["multi-key-join"])
}


/// The answer relation is a join-free UNION of projections (several single-atom rules that drop
/// columns), so that different stored tuples collapse to the same answer tuple.
pub fn gen_union_proj_family(r: &mut Rng) -> (Program, Edb, Vec<&'static str>) {
    use Lit::*;
    let v = |i: u32| Term::Var(i);
    let mut clauses = vec![];
    let n = r.range(2, 3);
    for _ in 0..n {
        let c = match r.below(4) {
            0 => Clause { head: 99, args: vec![HTerm::Var(0)], body: vec![Pos(0, vec![v(0), Term::Wild])] },
            1 => Clause { head: 99, args: vec![HTerm::Var(0)], body: vec![Pos(1, vec![v(1), v(0)])] },
            2 => Clause { head: 99, args: vec![HTerm::Var(0)], body: vec![Pos(3, vec![v(0), v(1), Term::Wild]), Cmp(CmpOp::Ge, v(1), Term::Int(1))] },
            _ => Clause { head: 99, args: vec![HTerm::Var(0)], body: vec![Pos(2, vec![v(0)])] },
        };
        clauses.push(c);
    }
    let mut edb = vec![];
    for (rel, ar) in [(0u32, 2usize), (1, 2), (2, 1), (3, 3)] {
        let mut ts: Vec<Tuple> = vec![];
        for _ in 0..r.range(6, 14) {
            let t = Tuple::new((0..ar).map(|_| Value::Int64(r.range(0, 3))).collect());
            if !ts.contains(&t) {
                ts.push(t);
            }
        }
        edb.push((rel, ts));
    }
    (Program { clauses }, edb, vec!["union-of-projections", "multi-clause-head"])
}
