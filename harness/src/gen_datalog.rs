//! Shared Datalog program generator (filled in with Group A).
