//! Shared helpers for the per-property harness binaries (`src/bin/cXX.rs`).
//!
//! Every binary: `cXX --seed S --n N --out DIR [--only I]`.
//! It drives the REAL inputlayer code on generated cases and writes
//!   DIR/cases_<k>.v     Coq files: the inputs, the implementation's outputs and one
//!                       `Eval vm_compute in (<checker> cases).` per shard
//!   DIR/cases.jsonl     one JSON object per case: {"idx":..,"desc":..,"tags":[..]}
//!   DIR/meta.json       {"evaluations":..,"distribution":{..}}
//! All random choices come from one PRNG seeded by --seed.

use std::fmt::Write as _;
use std::io::Write as _;
use std::path::{Path, PathBuf};

pub mod gen_datalog;

// ---------------------------------------------------------------- PRNG
#[derive(Clone)]
pub struct Rng(pub u64);
impl Rng {
    pub fn new(seed: u64) -> Self {
        Rng(seed.wrapping_mul(0x9E37_79B9_7F4A_7C15) ^ 0xD1B5_4A32_D192_ED03)
    }
    pub fn next(&mut self) -> u64 {
        // splitmix64
        self.0 = self.0.wrapping_add(0x9E37_79B9_7F4A_7C15);
        let mut z = self.0;
        z = (z ^ (z >> 30)).wrapping_mul(0xBF58_476D_1CE4_E5B9);
        z = (z ^ (z >> 27)).wrapping_mul(0x94D0_49BB_1331_11EB);
        z ^ (z >> 31)
    }
    pub fn below(&mut self, n: u64) -> u64 {
        if n == 0 {
            0
        } else {
            self.next() % n
        }
    }
    pub fn range(&mut self, lo: i64, hi: i64) -> i64 {
        lo + self.below((hi - lo + 1) as u64) as i64
    }
    pub fn chance(&mut self, num: u64, den: u64) -> bool {
        self.below(den) < num
    }
    pub fn pick<'a, T>(&mut self, xs: &'a [T]) -> &'a T {
        &xs[self.below(xs.len() as u64) as usize]
    }
    pub fn shuffle<T>(&mut self, xs: &mut [T]) {
        for i in (1..xs.len()).rev() {
            let j = self.below(i as u64 + 1) as usize;
            xs.swap(i, j);
        }
    }
}

// ---------------------------------------------------------------- args
pub struct Args {
    pub seed: u64,
    pub n: usize,
    pub out: PathBuf,
    pub only: Option<usize>,
    pub extra: Vec<String>,
}
pub fn parse_args() -> Args {
    let mut a = Args { seed: 1, n: 100, out: PathBuf::from("."), only: None, extra: vec![] };
    let v: Vec<String> = std::env::args().skip(1).collect();
    let mut i = 0;
    while i < v.len() {
        match v[i].as_str() {
            "--seed" => {
                a.seed = v[i + 1].parse().expect("seed");
                i += 2;
            }
            "--n" => {
                a.n = v[i + 1].parse().expect("n");
                i += 2;
            }
            "--out" => {
                a.out = PathBuf::from(&v[i + 1]);
                i += 2;
            }
            "--only" => {
                a.only = Some(v[i + 1].parse().expect("only"));
                i += 2;
            }
            other => {
                a.extra.push(other.to_string());
                i += 1;
            }
        }
    }
    std::fs::create_dir_all(&a.out).expect("mkdir out");
    a
}

// ---------------------------------------------------------------- Coq term printing
pub fn coq_n(x: u128) -> String {
    format!("{}%N", x)
}
pub fn coq_z(x: i128) -> String {
    if x < 0 {
        format!("({})%Z", x)
    } else {
        format!("{}%Z", x)
    }
}
pub fn coq_nat(x: usize) -> String {
    format!("{}%nat", x)
}
pub fn coq_bool(b: bool) -> &'static str {
    if b {
        "true"
    } else {
        "false"
    }
}
pub fn coq_list<T: AsRef<str>>(xs: &[T]) -> String {
    let mut s = String::from("[");
    for (i, x) in xs.iter().enumerate() {
        if i > 0 {
            s.push_str("; ");
        }
        s.push_str(x.as_ref());
    }
    s.push(']');
    s
}
pub fn coq_opt(x: Option<String>) -> String {
    match x {
        Some(s) => format!("(Some {})", s),
        None => "None".to_string(),
    }
}
pub fn coq_pair(a: &str, b: &str) -> String {
    format!("({}, {})", a, b)
}
/// A string as the list of its Unicode code points (`list N`), the model's string type.
pub fn coq_str(s: &str) -> String {
    let v: Vec<String> = s.chars().map(|c| coq_n(c as u128)).collect();
    coq_list(&v)
}

use inputlayer::value::{Tuple, Value};
/// `Model/Value.v` constructors.
pub fn coq_value(v: &Value) -> String {
    match v {
        Value::Null => "VNull".into(),
        Value::Bool(b) => format!("(VBool {})", coq_bool(*b)),
        Value::Int32(i) => format!("(VI32 {})", coq_z(*i as i128)),
        Value::Int64(i) => format!("(VI64 {})", coq_z(*i as i128)),
        Value::Float64(f) => format!("(VF64 {})", coq_n(f.to_bits() as u128)),
        Value::Timestamp(i) => format!("(VTs {})", coq_z(*i as i128)),
        Value::String(s) => format!("(VStr {})", coq_str(s)),
        Value::Vector(xs) => {
            let v: Vec<String> = xs.iter().map(|f| coq_n(f.to_bits() as u128)).collect();
            format!("(VVec {})", coq_list(&v))
        }
        Value::VectorInt8(xs) => {
            let v: Vec<String> = xs.iter().map(|i| coq_z(*i as i128)).collect();
            format!("(VVec8 {})", coq_list(&v))
        }
    }
}
pub fn coq_tuple(t: &Tuple) -> String {
    let v: Vec<String> = t.values().iter().map(coq_value).collect();
    coq_list(&v)
}
pub fn coq_tuples(ts: &[Tuple]) -> String {
    let v: Vec<String> = ts.iter().map(coq_tuple).collect();
    coq_list(&v)
}

// ---------------------------------------------------------------- case sink
/// Collects cases and writes sharded Coq files + the JSON side files.
pub struct Sink {
    out: PathBuf,
    header: String,
    case_ty: String,
    checker: String,
    shard_size: usize,
    cur: Vec<(usize, String)>,
    shard_no: usize,
    jsonl: std::fs::File,
    pub count: usize,
    pub dist: std::collections::BTreeMap<String, u64>,
    only: Option<usize>,
}
impl Sink {
    /// `header`: the `From IL Require Import ...` lines. `case_ty`: Coq type of one case.
    /// `checker`: a Coq function `list (N * case_ty) -> list N` returning `idx*10+code`
    /// for every case that is not plainly OK (see tools/check.py for the codes).
    pub fn new(args: &Args, header: &str, case_ty: &str, checker: &str, shard_size: usize) -> Self {
        let jsonl = std::fs::File::create(args.out.join("cases.jsonl")).expect("jsonl");
        Sink {
            out: args.out.clone(),
            header: header.to_string(),
            case_ty: case_ty.to_string(),
            checker: checker.to_string(),
            shard_size,
            cur: vec![],
            shard_no: 0,
            jsonl,
            count: 0,
            dist: Default::default(),
            only: args.only,
        }
    }
    pub fn wants(&self, idx: usize) -> bool {
        self.only.map_or(true, |o| o == idx)
    }
    pub fn next_idx(&self) -> usize {
        self.count
    }
    pub fn tally(&mut self, key: &str) {
        *self.dist.entry(key.to_string()).or_insert(0) += 1;
    }
    pub fn tally_n(&mut self, key: &str, n: u64) {
        *self.dist.entry(key.to_string()).or_insert(0) += n;
    }
    /// Add one case. `coq`: the Coq term; `desc`: human-readable replay; `tags`: class labels;
    /// `nontrivial_key`: Some(canonical text) when the case is non-trivial (distinct ones counted).
    pub fn push(&mut self, coq: String, desc: serde_json::Value, tags: &[&str], nontrivial_key: Option<String>) {
        let idx = self.count;
        self.count += 1;
        for t in tags {
            self.tally(&format!("tag:{}", t));
        }
        if !self.wants(idx) {
            return;
        }
        let rec = serde_json::json!({"idx": idx, "desc": desc, "tags": tags, "nontrivial_key": nontrivial_key});
        writeln!(self.jsonl, "{}", rec).expect("write jsonl");
        self.cur.push((idx, coq));
        if self.cur.len() >= self.shard_size {
            self.flush_shard();
        }
    }
    fn flush_shard(&mut self) {
        if self.cur.is_empty() {
            return;
        }
        let mut s = String::new();
        s.push_str(&self.header);
        s.push_str("\nFrom Coq Require Import List NArith ZArith Bool.\nImport ListNotations.\nOpen Scope list_scope.\n");
        let _ = writeln!(s, "Definition cases : list (N * ({})) := [", self.case_ty);
        for (k, (idx, c)) in self.cur.iter().enumerate() {
            let _ = writeln!(s, "  ({}%N, {}){}", idx, c, if k + 1 < self.cur.len() { ";" } else { "" });
        }
        s.push_str("].\n");
        let _ = writeln!(s, "Eval vm_compute in ({} cases).", self.checker);
        let p = self.out.join(format!("cases_{}.v", self.shard_no));
        std::fs::write(&p, s).expect("write shard");
        self.shard_no += 1;
        self.cur.clear();
    }
    pub fn finish(mut self) {
        self.flush_shard();
        let meta = serde_json::json!({"evaluations": self.count, "shards": self.shard_no, "distribution": self.dist});
        std::fs::write(self.out.join("meta.json"), serde_json::to_string_pretty(&meta).unwrap()).expect("meta");
    }
}

pub fn out_path(a: &Args, name: &str) -> PathBuf {
    Path::new(&a.out).join(name)
}

/// Run `f`, turning a panic into Err(message) (panics are observable failures for several properties).
pub fn catch<T>(f: impl FnOnce() -> T + std::panic::UnwindSafe) -> Result<T, String> {
    std::panic::catch_unwind(f).map_err(|e| {
        if let Some(s) = e.downcast_ref::<&str>() {
            (*s).to_string()
        } else if let Some(s) = e.downcast_ref::<String>() {
            s.clone()
        } else {
            "panic".to_string()
        }
    })
}
