//! Schedule controller for the schedule properties (C15, C17, C19, C20).
//! Included by the binaries with `#[path = "../conc_ctl.rs"] mod conc_ctl;`.
//!
//! Worker threads register with `inputlayer::verif_hooks::enter`; every `sched_point(label)` they
//! reach is either a *parking* label (the thread reports its arrival and sleeps until the
//! controller picks it again) or an *observed* label (recorded in the event log, an optional
//! callback runs on the thread, the thread continues). Exactly one worker runs at a time, so an
//! execution is a deterministic function of the schedule (the list of thread numbers picked).
//!
//! A picked thread that neither parks again nor finishes within `timeout` is blocked on a lock
//! held by a parked thread: the execution is abandoned (all threads are released to run freely and
//! joined) and reported as infeasible. The binaries avoid this by passing an `enabled` function
//! that knows which parked labels hold which locks; the timeout is the safety net.
#![allow(dead_code)]
use inputlayer::verif_hooks::{self, SchedController};
use std::sync::{Arc, Condvar, Mutex};
use std::time::{Duration, Instant};

#[derive(Clone, Debug, PartialEq)]
pub enum Ev {
    /// thread parked at label
    Park(usize, &'static str),
    /// thread passed an observed label
    Obs(usize, &'static str),
    /// thread finished its body
    Done(usize),
}

#[derive(Clone, Debug, PartialEq)]
pub enum Status {
    Running,
    Parked(&'static str),
    Done,
}

struct Inner {
    status: Vec<Status>,
    arrivals: Vec<u64>, // number of park/done events per thread
    turn: Option<usize>,
    free_run: bool,
    log: Vec<Ev>,
}

pub type ObsFn = dyn Fn(usize, &'static str) + Send + Sync;

pub struct Ctl {
    inner: Mutex<Inner>,
    cv: Condvar,
    parks: fn(&str) -> bool,
    obs: Option<Box<ObsFn>>,
}

impl Ctl {
    pub fn new(nthreads: usize, parks: fn(&str) -> bool, obs: Option<Box<ObsFn>>) -> Arc<Ctl> {
        Arc::new(Ctl {
            inner: Mutex::new(Inner {
                status: vec![Status::Running; nthreads],
                arrivals: vec![0; nthreads],
                turn: None,
                free_run: false,
                log: vec![],
            }),
            cv: Condvar::new(),
            parks,
            obs,
        })
    }
    fn done(&self, t: usize) {
        let mut g = self.inner.lock().unwrap();
        g.status[t] = Status::Done;
        g.arrivals[t] += 1;
        g.log.push(Ev::Done(t));
        g.turn = None;
        self.cv.notify_all();
    }
    pub fn log_len(&self) -> usize {
        self.inner.lock().unwrap().log.len()
    }
}

impl SchedController for Ctl {
    fn at(&self, t: usize, label: &'static str) {
        if !(self.parks)(label) {
            {
                let mut g = self.inner.lock().unwrap();
                if g.free_run {
                    return;
                }
                g.log.push(Ev::Obs(t, label));
            }
            if let Some(f) = &self.obs {
                f(t, label);
            }
            return;
        }
        let mut g = self.inner.lock().unwrap();
        if g.free_run {
            return;
        }
        g.status[t] = Status::Parked(label);
        g.arrivals[t] += 1;
        g.log.push(Ev::Park(t, label));
        g.turn = None;
        self.cv.notify_all();
        while g.turn != Some(t) && !g.free_run {
            g = self.cv.wait(g).unwrap();
        }
        g.status[t] = Status::Running;
    }
}

pub struct ThreadView {
    /// label the thread is parked at; None = finished
    pub parked: Option<&'static str>,
    /// number of times the thread parked at the label "op" (= index of its current op + 1)
    pub ops_started: usize,
}

pub struct Outcome {
    pub schedule: Vec<usize>,
    /// for every step of the schedule, the label the picked thread parked at next ("done" when it finished)
    pub arrived: Vec<&'static str>,
    pub log: Vec<Ev>,
    /// enabled sets seen before each step (for enumeration)
    pub enabled_sets: Vec<Vec<usize>>,
    pub infeasible: bool,
    /// threads that were still blocked a few seconds after an abandoned execution was released to
    /// run freely (they are detached, not joined): a section of the code under test never returns
    pub hung: Vec<usize>,
    pub panics: Vec<(usize, String)>,
}

pub type Body = Box<dyn FnOnce() + Send + 'static>;

/// Run one execution. `choose(step_index, enabled_threads)` picks the next thread (must be one of
/// `enabled_threads`); `enabled(views)` says which unfinished threads can make progress.
/// `after_step(step_index)` runs on the controller thread while every worker is parked.
pub fn run_execution(
    bodies: Vec<Body>,
    parks: fn(&str) -> bool,
    obs: Option<Box<ObsFn>>,
    enabled: &dyn Fn(&[ThreadView]) -> Vec<bool>,
    choose: &mut dyn FnMut(usize, &[usize]) -> usize,
    after_step: &mut dyn FnMut(usize, &[Ev]),
    timeout: Duration,
) -> Outcome {
    let n = bodies.len();
    let ctl = Ctl::new(n, parks, obs);
    let panics: Arc<Mutex<Vec<(usize, String)>>> = Arc::new(Mutex::new(vec![]));
    let (done_tx, done_rx) = std::sync::mpsc::channel::<usize>();
    let mut handles = vec![];
    for (t, body) in bodies.into_iter().enumerate() {
        let c = Arc::clone(&ctl);
        let pn = Arc::clone(&panics);
        let done_tx = done_tx.clone();
        handles.push(
            std::thread::Builder::new()
                .name(format!("sched-worker-{t}"))
                .spawn(move || {
                    let dynctl: Arc<dyn SchedController> = c.clone();
                    verif_hooks::enter(dynctl, t);
                    verif_hooks::sched_point("start");
                    let r = std::panic::catch_unwind(std::panic::AssertUnwindSafe(body));
                    if let Err(e) = r {
                        let msg = if let Some(s) = e.downcast_ref::<&str>() {
                            (*s).to_string()
                        } else if let Some(s) = e.downcast_ref::<String>() {
                            s.clone()
                        } else {
                            "panic".to_string()
                        };
                        pn.lock().unwrap().push((t, msg));
                    }
                    verif_hooks::leave();
                    c.done(t);
                    let _ = done_tx.send(t);
                })
                .expect("spawn"),
        );
    }
    // wait until every worker is parked at "start"
    {
        let mut g = ctl.inner.lock().unwrap();
        while g.arrivals.iter().any(|a| *a == 0) {
            g = ctl.cv.wait(g).unwrap();
        }
    }
    let mut schedule = vec![];
    let mut arrived = vec![];
    let mut enabled_sets = vec![];
    let mut infeasible = false;
    let mut ops_started = vec![0usize; n];
    loop {
        let views: Vec<ThreadView> = {
            let g = ctl.inner.lock().unwrap();
            (0..n)
                .map(|t| ThreadView {
                    parked: match g.status[t] {
                        Status::Parked(l) => Some(l),
                        _ => None,
                    },
                    ops_started: ops_started[t],
                })
                .collect()
        };
        if views.iter().all(|v| v.parked.is_none()) {
            break;
        }
        let en = enabled(&views);
        let en_list: Vec<usize> = (0..n).filter(|t| views[*t].parked.is_some() && en[*t]).collect();
        if en_list.is_empty() {
            // every unfinished thread is blocked: a genuine deadlock of the system under test
            infeasible = true;
            break;
        }
        let t = choose(schedule.len(), &en_list);
        assert!(en_list.contains(&t), "chooser picked a disabled thread");
        enabled_sets.push(en_list);
        schedule.push(t);
        let mut g = ctl.inner.lock().unwrap();
        let before = g.arrivals[t];
        g.turn = Some(t);
        ctl.cv.notify_all();
        let deadline = Instant::now() + timeout;
        let mut timed_out = false;
        while g.arrivals[t] == before {
            let now = Instant::now();
            if now >= deadline {
                timed_out = true;
                break;
            }
            let (g2, _) = ctl.cv.wait_timeout(g, deadline - now).unwrap();
            g = g2;
        }
        if timed_out {
            infeasible = true;
            arrived.push("blocked");
            drop(g);
            break;
        }
        let lab = match g.status[t] {
            Status::Parked(l) => l,
            _ => "done",
        };
        if lab == "op" {
            ops_started[t] += 1;
        }
        arrived.push(lab);
        let snapshot: Vec<Ev> = g.log.clone();
        drop(g);
        after_step(schedule.len() - 1, &snapshot);
    }
    let mut hung = vec![];
    if infeasible {
        {
            let mut g = ctl.inner.lock().unwrap();
            g.free_run = true;
            ctl.cv.notify_all();
        }
        // give the released threads a few seconds; whoever is still blocked then is detached
        let mut finished = vec![false; n];
        let deadline = Instant::now() + Duration::from_secs(4);
        loop {
            {
                let g = ctl.inner.lock().unwrap();
                for t in 0..n {
                    if g.status[t] == Status::Done {
                        finished[t] = true;
                    }
                }
            }
            if finished.iter().all(|f| *f) {
                break;
            }
            let now = Instant::now();
            if now >= deadline {
                break;
            }
            let _ = done_rx.recv_timeout((deadline - now).min(Duration::from_millis(200)));
        }
        for (t, h) in handles.into_iter().enumerate() {
            if finished[t] {
                let _ = h.join();
            } else {
                hung.push(t);
                drop(h);
            }
        }
    } else {
        for h in handles {
            let _ = h.join();
        }
    }
    let log = ctl.inner.lock().unwrap().log.clone();
    let panics = panics.lock().unwrap().clone();
    Outcome { schedule, arrived, log, enabled_sets, infeasible, hung, panics }
}

/// Enumerate every schedule of a configuration, depth first in lexicographic order, one execution
/// per schedule. `run(prefix)` must execute with the forced prefix and then always pick the
/// smallest enabled thread; it returns the outcome. Stops after `limit` executions.
pub fn enumerate(limit: usize, mut run: impl FnMut(&[usize]) -> Outcome) -> (Vec<Outcome>, bool) {
    let mut outs = vec![];
    let mut prefix: Vec<usize> = vec![];
    let mut complete = false;
    while outs.len() < limit {
        let o = run(&prefix);
        // next prefix: deepest position with an untried larger enabled thread
        let mut next: Option<Vec<usize>> = None;
        for i in (0..o.schedule.len()).rev() {
            let cur = o.schedule[i];
            if let Some(nx) = o.enabled_sets[i].iter().copied().filter(|x| *x > cur).min() {
                let mut p = o.schedule[..i].to_vec();
                p.push(nx);
                next = Some(p);
                break;
            }
        }
        outs.push(o);
        match next {
            Some(p) => prefix = p,
            None => {
                complete = true;
                break;
            }
        }
    }
    (outs, complete)
}

/// Chooser for `enumerate`: follow `prefix`, then the smallest enabled thread.
pub fn prefix_chooser(prefix: &[usize]) -> impl FnMut(usize, &[usize]) -> usize + '_ {
    move |i, en| if i < prefix.len() && en.contains(&prefix[i]) { prefix[i] } else { en[0] }
}

/// A scratch directory on tmpfs when available (fsync-heavy code runs ~10x faster there).
pub fn scratch_dir() -> tempfile::TempDir {
    let shm = std::path::Path::new("/dev/shm");
    if shm.is_dir() {
        if let Ok(d) = tempfile::Builder::new().prefix("ilv-").tempdir_in(shm) {
            return d;
        }
    }
    tempfile::Builder::new().prefix("ilv-").tempdir().expect("tempdir")
}

pub fn copy_dir(src: &std::path::Path, dst: &std::path::Path) {
    std::fs::create_dir_all(dst).expect("mkdir");
    if let Ok(rd) = std::fs::read_dir(src) {
        for e in rd.flatten() {
            let p = e.path();
            let d = dst.join(e.file_name());
            if p.is_dir() {
                copy_dir(&p, &d);
            } else {
                let _ = std::fs::copy(&p, &d);
            }
        }
    }
}
