//! Group E (C21, C22, C23) — shared generator, reference evaluator, drivers and Coq printers.
//! Included by `src/bin/c21.rs`, `c22.rs`, `c23.rs` with `#[path]` (not part of the library).
//!
//! What is driven (all REAL code of the `inputlayer` crate):
//!   path 0  Handler::query_program(".why ?r(..)") / (".why_not r(..)")        end to end
//!   path 1  build_proof_tree / explain_why_not with a ProofContext whose rules and base data
//!           come from StorageEngine::get_rules_and_data and whose derived data is the
//!           perfect model computed by the small evaluator below (re-checked inside Coq)
//!   path 2  the same with NO derived data (ProofContext::new), exercising
//!           enumerate_derived_candidates
//! Every random choice comes from the one `Rng`.
#![allow(dead_code)]
use inputlayer::ast::{BodyPredicate, ComparisonOp, Rule, Term};
use inputlayer::protocol::Handler;
use inputlayer::provenance::backward_chaining::{build_proof_tree, ProofContext};
use inputlayer::provenance::proof_tree::{FactSource, NodeKind, ProofTree};
use inputlayer::provenance::why_not::explain_why_not;
use inputlayer::provenance::{Blocker, ProofConfig};
use inputlayer::value::{Tuple, Value};
use inputlayer::{Config, StorageEngine};
use std::collections::{BTreeSet, HashMap};
use vharness::*;

// ------------------------------------------------------------------ the fragment
#[derive(Clone, Debug, PartialEq, Eq, PartialOrd, Ord)]
pub enum V {
    I(i64),
    S(String),
}
#[derive(Clone, Debug, PartialEq)]
pub enum T {
    Var(usize),
    C(V),
}
#[derive(Clone, Debug, PartialEq)]
pub struct A {
    pub rel: usize,
    pub args: Vec<T>,
}
#[derive(Clone, Copy, Debug, PartialEq)]
pub enum Op {
    Eq,
    Ne,
    Lt,
    Le,
    Gt,
    Ge,
}
#[derive(Clone, Debug, PartialEq)]
pub enum L {
    Pos(A),
    Neg(A),
    Cmp(T, Op, T),
}
#[derive(Clone, Debug)]
pub struct Cl {
    pub head: A,
    pub body: Vec<L>,
}
#[derive(Clone, Debug)]
pub struct Prog {
    pub arity: Vec<usize>,       // per relation r0..r(n-1)
    pub nbase: usize,            // r0..r(nbase-1) are stored relations, the rest are derived
    pub clauses: Vec<Cl>,        // in submission order
    pub edb: Vec<Vec<Vec<V>>>,   // stored tuples per relation
    pub dom: Vec<V>,             // the value domain
    pub shape: Vec<&'static str>,
    /// relations whose stored-fact entry exists but is empty (a tuple is inserted and deleted again)
    pub emptied: Vec<bool>,
}

impl V {
    fn text(&self) -> String {
        match self {
            V::I(i) => format!("{}", i),
            V::S(s) => format!("\"{}\"", s),
        }
    }
    fn value(&self) -> Value {
        match self {
            V::I(i) => Value::Int64(*i),
            V::S(s) => Value::string(s),
        }
    }
}
impl T {
    fn text(&self) -> String {
        match self {
            T::Var(v) => format!("V{}", v),
            T::C(c) => c.text(),
        }
    }
}
impl A {
    fn text(&self) -> String {
        let a: Vec<String> = self.args.iter().map(|t| t.text()).collect();
        format!("r{}({})", self.rel, a.join(", "))
    }
}
impl Op {
    fn text(&self) -> &'static str {
        match self {
            Op::Eq => "=",
            Op::Ne => "!=",
            Op::Lt => "<",
            Op::Le => "<=",
            Op::Gt => ">",
            Op::Ge => ">=",
        }
    }
}
impl L {
    fn text(&self) -> String {
        match self {
            L::Pos(a) => a.text(),
            L::Neg(a) => format!("!{}", a.text()),
            L::Cmp(l, o, r) => format!("{} {} {}", l.text(), o.text(), r.text()),
        }
    }
}
impl Cl {
    pub fn text(&self) -> String {
        let b: Vec<String> = self.body.iter().map(|l| l.text()).collect();
        format!("{} <- {}", self.head.text(), b.join(", "))
    }
}
impl Prog {
    pub fn nrel(&self) -> usize {
        self.arity.len()
    }
    fn dummy(&self, r: usize) -> Vec<V> {
        (0..self.arity[r]).map(|_| V::I(0)).collect()
    }
    /// the engine ignores the stored facts of a rule head unless every clause of it is self-recursive
    pub fn shadowed(&self, r: usize) -> bool {
        self.clauses.iter().any(|c| c.head.rel == r && !c.body.iter().any(|l| matches!(l, L::Pos(a) if a.rel == r)))
    }
    pub fn has_clauses(&self, r: usize) -> bool {
        self.clauses.iter().any(|c| c.head.rel == r)
    }
    pub fn text(&self) -> String {
        let mut s = String::new();
        for (r, ts) in self.edb.iter().enumerate() {
            if !ts.is_empty() {
                s.push_str(&fact_stmt(r, ts));
                s.push('\n');
            } else if self.emptied.get(r).copied().unwrap_or(false) {
                let d = self.dummy(r);
                s.push_str(&fact_stmt(r, &[d.clone()]));
                s.push('\n');
                s.push_str(&fact_stmt(r, &[d]).replacen('+', "-", 1));
                s.push('\n');
            }
        }
        for c in &self.clauses {
            s.push_str(&format!("+{}\n", c.text()));
        }
        s
    }
}
pub fn fact_stmt(r: usize, ts: &[Vec<V>]) -> String {
    let rows: Vec<String> = ts
        .iter()
        .map(|t| {
            let v: Vec<String> = t.iter().map(|x| x.text()).collect();
            if v.len() == 1 {
                format!("({},)", v[0])
            } else {
                format!("({})", v.join(", "))
            }
        })
        .collect();
    format!("+r{}[{}]", r, rows.join(", "))
}

// ------------------------------------------------------------------ a tiny parser for corpus programs
// syntax:  lines "rK(a, b) ."  (fact)  and  "rK(V0, 1) <- r0(V0, V1), !r1(V1), V0 < V1"
fn parse_term(s: &str) -> T {
    let s = s.trim();
    if let Some(n) = s.strip_prefix('V') {
        if let Ok(k) = n.parse::<usize>() {
            return T::Var(k);
        }
    }
    if s.starts_with('"') {
        return T::C(V::S(s.trim_matches('"').to_string()));
    }
    T::C(V::I(s.parse::<i64>().unwrap_or_else(|_| panic!("term {:?}", s))))
}
fn parse_atom(s: &str) -> A {
    let s = s.trim();
    let p = s.find('(').expect("atom (");
    let rel: usize = s[1..p].parse().expect("rel number");
    let inner = &s[p + 1..s.rfind(')').expect("atom )")];
    A { rel, args: split_items(inner).iter().map(|x| parse_term(x)).collect() }
}
fn parse_lit(s: &str) -> L {
    let s = s.trim();
    if let Some(r) = s.strip_prefix('!') {
        if !r.starts_with('=') {
            return L::Neg(parse_atom(r));
        }
    }
    for (tok, op) in [("!=", Op::Ne), ("<=", Op::Le), (">=", Op::Ge), ("<", Op::Lt), (">", Op::Gt), ("=", Op::Eq)] {
        if let Some(p) = s.find(tok) {
            if !s.contains('(') {
                return L::Cmp(parse_term(&s[..p]), op, parse_term(&s[p + tok.len()..]));
            }
        }
    }
    L::Pos(parse_atom(s))
}
/// split on commas that are outside quotes and parentheses
pub fn split_items(s: &str) -> Vec<String> {
    let mut out = vec![];
    let mut cur = String::new();
    let (mut q, mut d) = (false, 0i32);
    for ch in s.chars() {
        match ch {
            '"' => {
                q = !q;
                cur.push(ch)
            }
            '(' if !q => {
                d += 1;
                cur.push(ch)
            }
            ')' if !q => {
                d -= 1;
                cur.push(ch)
            }
            ',' if !q && d == 0 => {
                out.push(cur.trim().to_string());
                cur.clear()
            }
            _ => cur.push(ch),
        }
    }
    if !cur.trim().is_empty() {
        out.push(cur.trim().to_string());
    }
    out
}
pub fn parse_prog(nbase: usize, arity: &[usize], dom: &[V], src: &str, shape: &'static str) -> Prog {
    let mut p = Prog {
        arity: arity.to_vec(),
        nbase,
        clauses: vec![],
        edb: vec![vec![]; arity.len()],
        dom: dom.to_vec(),
        shape: vec![shape],
        emptied: vec![false; arity.len()],
    };
    for line in src.lines().map(|l| l.trim()).filter(|l| !l.is_empty()) {
        if let Some(rest) = line.strip_suffix(" emptied") {
            let r: usize = rest.trim()[1..].parse().expect("emptied relation");
            p.emptied[r] = true;
            continue;
        }
        if let Some(ar) = line.find("<-") {
            let head = parse_atom(&line[..ar]);
            let body = split_items(&line[ar + 2..]).iter().map(|x| parse_lit(x)).collect();
            p.clauses.push(Cl { head, body });
        } else {
            let a = parse_atom(line.trim_end_matches('.'));
            let t: Vec<V> = a
                .args
                .iter()
                .map(|x| match x {
                    T::C(c) => c.clone(),
                    _ => panic!("fact with variable"),
                })
                .collect();
            p.edb[a.rel].push(t);
        }
    }
    p
}

// ------------------------------------------------------------------ reference evaluator (re-checked in Coq)
type Th = Vec<Option<V>>;
fn term_val(th: &Th, t: &T) -> Option<V> {
    match t {
        T::C(c) => Some(c.clone()),
        T::Var(v) => th.get(*v).cloned().flatten(),
    }
}
fn match_args(th: &Th, args: &[T], t: &[V]) -> Option<Th> {
    if args.len() != t.len() {
        return None;
    }
    let mut th = th.clone();
    for (a, x) in args.iter().zip(t) {
        match a {
            T::C(c) => {
                if c != x {
                    return None;
                }
            }
            T::Var(v) => {
                if th.len() <= *v {
                    th.resize(*v + 1, None);
                }
                match &th[*v] {
                    Some(y) => {
                        if y != x {
                            return None;
                        }
                    }
                    None => th[*v] = Some(x.clone()),
                }
            }
        }
    }
    Some(th)
}
fn cmp_eval(o: Op, a: &V, b: &V) -> bool {
    use std::cmp::Ordering::*;
    let ord = match (a, b) {
        (V::I(x), V::I(y)) => x.cmp(y),
        (V::S(x), V::S(y)) => x.cmp(y),
        (V::I(_), V::S(_)) => Less,
        (V::S(_), V::I(_)) => Greater,
    };
    match o {
        Op::Eq => a == b,
        Op::Ne => a != b,
        Op::Lt => ord == Less,
        Op::Le => ord != Greater,
        Op::Gt => ord == Greater,
        Op::Ge => ord != Less,
    }
}
fn pat_matches(th: &Th, a: &A, t: &[V]) -> bool {
    a.args.len() == t.len()
        && a.args.iter().zip(t).all(|(x, y)| match term_val(th, x) {
            Some(v) => &v == y,
            None => true,
        })
}
pub fn clause_heads(m: &[BTreeSet<Vec<V>>], c: &Cl) -> Vec<Vec<V>> {
    let mut ths: Vec<Th> = vec![vec![]];
    for l in &c.body {
        if let L::Pos(a) = l {
            let mut nx = vec![];
            for th in &ths {
                for t in &m[a.rel] {
                    if let Some(t2) = match_args(th, &a.args, t) {
                        nx.push(t2);
                    }
                }
            }
            ths = nx;
        }
    }
    let mut out = vec![];
    'th: for th in &ths {
        for l in &c.body {
            match l {
                L::Pos(_) => {}
                L::Neg(a) => {
                    if m[a.rel].iter().any(|t| pat_matches(th, a, t)) {
                        continue 'th;
                    }
                }
                L::Cmp(x, o, y) => match (term_val(th, x), term_val(th, y)) {
                    (Some(a), Some(b)) if cmp_eval(*o, &a, &b) => {}
                    _ => continue 'th,
                },
            }
        }
        let h: Option<Vec<V>> = c.head.args.iter().map(|t| term_val(th, t)).collect();
        if let Some(h) = h {
            out.push(h);
        }
    }
    out
}
/// perfect model, relations evaluated in index order (programs are layered by construction)
pub fn perfect(p: &Prog) -> Vec<BTreeSet<Vec<V>>> {
    let mut m: Vec<BTreeSet<Vec<V>>> = p
        .edb
        .iter()
        .enumerate()
        .map(|(r, ts)| if p.shadowed(r) { BTreeSet::new() } else { ts.iter().cloned().collect() })
        .collect();
    for r in 0..p.nrel() {
        loop {
            let mut added = false;
            for c in p.clauses.iter().filter(|c| c.head.rel == r) {
                for h in clause_heads(&m, c) {
                    if m[r].insert(h) {
                        added = true;
                    }
                }
            }
            if !added {
                break;
            }
        }
    }
    m
}

// ------------------------------------------------------------------ generator
fn gen_val(r: &mut Rng, dom: &[V]) -> V {
    r.pick(dom).clone()
}
fn vars_of_atom(a: &A, out: &mut Vec<usize>) {
    for t in &a.args {
        if let T::Var(v) = t {
            if !out.contains(v) {
                out.push(*v);
            }
        }
    }
}
pub fn gen_prog(r: &mut Rng) -> Prog {
    let all_int = r.chance(3, 4);
    let dom: Vec<V> = if all_int {
        vec![V::I(0), V::I(1), V::I(2), V::I(3)]
    } else {
        vec![V::I(0), V::I(1), V::S("a".into()), V::S("b".into())]
    };
    let nbase = r.range(1, 3) as usize;
    let nder = r.range(1, 5 - nbase as i64).min(3) as usize;
    let nrel = nbase + nder;
    let mut arity: Vec<usize> = (0..nrel).map(|_| *r.pick(&[1usize, 2, 2, 2, 3])).collect();
    let mut shape: Vec<&'static str> = vec![];
    // stored tuples
    let mut edb: Vec<Vec<Vec<V>>> = vec![vec![]; nrel];
    for (b, ar) in arity.iter().enumerate().take(nbase) {
        let n = r.range(0, 8);
        let mut seen = BTreeSet::new();
        for _ in 0..n {
            let t: Vec<V> = (0..*ar).map(|_| gen_val(r, &dom)).collect();
            if seen.insert(t.clone()) {
                edb[b].push(t);
            }
        }
    }
    let mut clauses: Vec<Cl> = vec![];
    let mut budget = 6usize;
    for h in nbase..nrel {
        if budget == 0 {
            arity.truncate(h);
            edb.truncate(h);
            break;
        }
        let want_tc = arity[h] == 2 && r.chance(1, 3);
        let ncl = if want_tc { 2 } else { r.range(1, 2) as usize }.min(budget);
        if ncl == 2 && !want_tc {
            shape.push("diamond");
        }
        for k in 0..ncl {
            budget -= 1;
            if want_tc {
                // transitive closure over some binary lower relation (or a unary fallback)
                let lows: Vec<usize> = (0..h).filter(|j| arity[*j] == 2).collect();
                if let Some(&e) = lows.first().map(|_| r.pick(&lows)) {
                    if k == 0 {
                        clauses.push(Cl {
                            head: A { rel: h, args: vec![T::Var(0), T::Var(1)] },
                            body: vec![L::Pos(A { rel: e, args: vec![T::Var(0), T::Var(1)] })],
                        });
                    } else {
                        let left = r.chance(1, 2);
                        let (a1, a2) = if left {
                            (A { rel: h, args: vec![T::Var(0), T::Var(2)] }, A { rel: e, args: vec![T::Var(2), T::Var(1)] })
                        } else {
                            (A { rel: e, args: vec![T::Var(0), T::Var(2)] }, A { rel: h, args: vec![T::Var(2), T::Var(1)] })
                        };
                        clauses.push(Cl {
                            head: A { rel: h, args: vec![T::Var(0), T::Var(1)] },
                            body: vec![L::Pos(a1), L::Pos(a2)],
                        });
                        shape.push("recursion");
                    }
                    continue;
                }
            }
            // generic clause
            let npos = r.range(1, 3) as usize;
            let mut body: Vec<L> = vec![];
            let mut pv: Vec<usize> = vec![];
            for i in 0..npos {
                let rel = r.below(h as u64) as usize;
                let args: Vec<T> = (0..arity[rel])
                    .map(|_| {
                        if r.chance(1, 7) {
                            T::C(gen_val(r, &dom))
                        } else if i > 0 && !pv.is_empty() && r.chance(1, 2) {
                            T::Var(*r.pick(&pv)) // join on an existing variable
                        } else {
                            T::Var(r.below(4) as usize)
                        }
                    })
                    .collect();
                let a = A { rel, args };
                vars_of_atom(&a, &mut pv);
                body.push(L::Pos(a));
            }
            if npos > 1 {
                shape.push("join");
            } else {
                shape.push("chain");
            }
            if pv.is_empty() {
                // ground body: give the head something to bind
                let rel = r.below(h as u64) as usize;
                let a = A { rel, args: (0..arity[rel]).map(|i| T::Var(i)).collect() };
                vars_of_atom(&a, &mut pv);
                body.push(L::Pos(a));
            }
            if r.chance(2, 5) {
                let rel = r.below(h as u64) as usize;
                let mut args: Vec<T> = (0..arity[rel])
                    .map(|_| if r.chance(1, 6) { T::C(gen_val(r, &dom)) } else { T::Var(*r.pick(&pv)) })
                    .collect();
                if args.iter().all(|t| matches!(t, T::C(_))) {
                    // the engine refuses a negated atom that shares no variable with the positive atoms
                    args[0] = T::Var(*r.pick(&pv));
                }
                body.push(L::Neg(A { rel, args }));
                shape.push(if rel < nbase { "neg_base" } else { "neg_derived" });
            }
            if r.chance(2, 5) {
                let l = T::Var(*r.pick(&pv));
                let rt = if r.chance(1, 2) { T::Var(*r.pick(&pv)) } else { T::C(gen_val(r, &dom)) };
                let op = if all_int {
                    *r.pick(&[Op::Eq, Op::Ne, Op::Lt, Op::Le, Op::Gt, Op::Ge])
                } else {
                    *r.pick(&[Op::Eq, Op::Ne])
                };
                body.push(L::Cmp(l, op, rt));
                shape.push("cmp");
            }
            if r.chance(1, 5) {
                r.shuffle(&mut body);
                shape.push("shuffled");
            }
            let hargs: Vec<T> = (0..arity[h])
                .map(|_| if r.chance(1, 10) { T::C(gen_val(r, &dom)) } else { T::Var(*r.pick(&pv)) })
                .collect();
            clauses.push(Cl { head: A { rel: h, args: hargs }, body });
        }
    }
    let mut emptied = vec![false; arity.len()];
    // rule-defined relations that ALSO have a stored-fact entry: emptied again (1/4) or with facts (1/8)
    for h in nbase..arity.len() {
        if !clauses.iter().any(|c| c.head.rel == h) {
            continue;
        }
        match r.below(8) {
            0 | 1 => {
                emptied[h] = true;
                shape.push("derived_with_emptied_store");
            }
            2 => {
                let n = r.range(1, 3);
                let mut seen = BTreeSet::new();
                for _ in 0..n {
                    let t: Vec<V> = (0..arity[h]).map(|_| gen_val(r, &dom)).collect();
                    if seen.insert(t.clone()) {
                        edb[h].push(t);
                    }
                }
                shape.push("derived_with_stored_facts");
            }
            _ => {}
        }
    }
    Prog { arity, nbase, clauses, edb, dom, shape, emptied }
}

/// left-to-right binding discipline of the backward chainer (head variables bound first)
pub fn bound_before_use(c: &Cl) -> bool {
    let mut bound: Vec<usize> = vec![];
    vars_of_atom(&c.head, &mut bound);
    for l in &c.body {
        match l {
            L::Pos(a) => vars_of_atom(a, &mut bound),
            L::Neg(a) => {
                let mut v = vec![];
                vars_of_atom(a, &mut v);
                if v.iter().any(|x| !bound.contains(x)) {
                    return false;
                }
            }
            L::Cmp(x, _, y) => {
                for t in [x, y] {
                    if let T::Var(v) = t {
                        if !bound.contains(v) {
                            return false;
                        }
                    }
                }
            }
        }
    }
    true
}

// ------------------------------------------------------------------ the real system
pub struct Sys {
    pub rt: Option<tokio::runtime::Runtime>,
    pub handler: Handler,
    _tmp: tempfile::TempDir,
}
impl Drop for Sys {
    fn drop(&mut self) {
        // a `.why` that timed out leaves its worker spinning in prove_body: never wait for it
        if let Some(rt) = self.rt.take() {
            rt.shutdown_background();
        }
    }
}
pub fn new_sys() -> Sys {
    let rt = tokio::runtime::Builder::new_current_thread().enable_all().build().expect("rt");
    let tmp = tempfile::TempDir::new().expect("tmp");
    let mut config = Config::default();
    config.storage.data_dir = tmp.path().to_path_buf();
    let storage = StorageEngine::new(config).expect("storage");
    let handler = Handler::new(storage);
    Sys { rt: Some(rt), handler, _tmp: tmp }
}
impl Sys {
    pub fn run(&self, text: &str) -> Result<inputlayer::protocol::wire::QueryResult, String> {
        self.rt.as_ref().expect("rt").block_on(self.handler.query_program(None, text.to_string()))
    }
    /// load facts and rules; Err(first message) when the system refuses something
    pub fn load(&self, p: &Prog) -> Result<(), String> {
        for (r, ts) in p.edb.iter().enumerate() {
            if !ts.is_empty() {
                let q = self.run(&fact_stmt(r, ts))?;
                check_msgs(&q)?;
            } else if p.emptied.get(r).copied().unwrap_or(false) {
                let d = p.dummy(r);
                let q = self.run(&fact_stmt(r, &[d.clone()]))?;
                check_msgs(&q)?;
                let q = self.run(&fact_stmt(r, &[d]).replacen('+', "-", 1))?;
                check_msgs(&q)?;
            }
        }
        for c in &p.clauses {
            let q = self.run(&format!("+{}", c.text()))?;
            check_msgs(&q)?;
        }
        // some rules are accepted at registration and make every later evaluation fail:
        // such a program is outside what the system evaluates at all
        for r in p.nbase..p.nrel() {
            self.run(&query_text(p, r)).map_err(|e| format!("probe {}: {}", query_text(p, r), e))?;
        }
        Ok(())
    }
    pub fn rules_and_base(&self) -> (Vec<Rule>, HashMap<String, Vec<Tuple>>) {
        let st = self.handler.get_storage();
        st.get_rules_and_data("default").expect("rules and data")
    }
}
fn check_msgs(q: &inputlayer::protocol::wire::QueryResult) -> Result<(), String> {
    for row in &q.rows {
        for v in &row.values {
            if let inputlayer::protocol::wire::WireValue::String(s) = v {
                let l = s.to_lowercase();
                if l.contains("error") || l.contains("unsafe") || l.contains("invalid") || l.contains("cannot") || l.contains("failed") {
                    return Err(s.clone());
                }
            }
        }
    }
    Ok(())
}

/// run `f` on its own thread; None when it does not finish within `secs` (the thread is leaked)
pub fn with_timeout<T: Send + 'static>(secs: u64, f: impl FnOnce() -> T + Send + 'static) -> Option<T> {
    let (tx, rx) = std::sync::mpsc::channel();
    std::thread::Builder::new()
        .stack_size(64 << 20)
        .spawn(move || {
            let _ = tx.send(f());
        })
        .expect("spawn");
    rx.recv_timeout(std::time::Duration::from_secs(secs)).ok()
}

// ------------------------------------------------------------------ Coq printers
pub fn rel_id(name: &str) -> u128 {
    name.strip_prefix('r').and_then(|s| s.parse().ok()).unwrap_or(999)
}
pub fn var_id(name: &str) -> u128 {
    name.strip_prefix('V').and_then(|s| s.parse().ok()).unwrap_or(999)
}
fn coq_vals(vs: &[Value]) -> String {
    let v: Vec<String> = vs.iter().map(coq_value).collect();
    coq_list(&v)
}
fn coq_term(t: &Term) -> String {
    match t {
        Term::Variable(n) => format!("(TVar {})", coq_n(var_id(n))),
        Term::Constant(i) => {
            // what `term_to_value` makes of it
            if i32::try_from(*i).is_ok() {
                format!("(TConst (VI32 {}))", coq_z(*i as i128))
            } else {
                format!("(TConst (VI64 {}))", coq_z(*i as i128))
            }
        }
        Term::StringConstant(s) => format!("(TConst (VStr {}))", coq_str(s)),
        _ => "(TVar 998%N)".to_string(),
    }
}
fn coq_atom(a: &inputlayer::ast::Atom) -> String {
    let v: Vec<String> = a.args.iter().map(coq_term).collect();
    format!("(mkAtom {} {})", coq_n(rel_id(&a.relation)), coq_list(&v))
}
fn coq_op(o: &ComparisonOp) -> &'static str {
    match o {
        ComparisonOp::Equal => "CEq",
        ComparisonOp::NotEqual => "CNe",
        ComparisonOp::LessThan => "CLt",
        ComparisonOp::LessOrEqual => "CLe",
        ComparisonOp::GreaterThan => "CGt",
        ComparisonOp::GreaterOrEqual => "CGe",
    }
}
pub fn coq_rule(r: &Rule) -> String {
    let b: Vec<String> = r
        .body
        .iter()
        .map(|l| match l {
            BodyPredicate::Positive(a) => format!("LPos {}", coq_atom(a)),
            BodyPredicate::Negated(a) => format!("LNeg {}", coq_atom(a)),
            BodyPredicate::Comparison(x, o, y) => format!("LCmp {} {} {}", coq_term(x), coq_op(o), coq_term(y)),
            _ => "LCmp (TVar 998%N) CEq (TVar 997%N)".to_string(),
        })
        .collect();
    format!("(mkClause {} {})", coq_atom(&r.head), coq_list(&b))
}
pub fn coq_program(rs: &[Rule]) -> String {
    let v: Vec<String> = rs.iter().map(coq_rule).collect();
    coq_list(&v)
}
/// `list (rel * list tuple)`, relations in ascending id order, tuples in the stored order
pub fn coq_db(d: &HashMap<String, Vec<Tuple>>, keep_unknown: bool) -> String {
    let mut names: Vec<&String> = d.keys().collect();
    names.sort_by_key(|n| (rel_id(n), (*n).clone()));
    let mut v = vec![];
    for n in names {
        if rel_id(n) == 999 && !keep_unknown {
            continue;
        }
        v.push(format!("({}, {})", coq_n(rel_id(n)), coq_tuples(&d[n])));
    }
    coq_list(&v)
}
pub fn coq_opt_db(d: Option<&HashMap<String, Vec<Tuple>>>) -> String {
    match d {
        Some(d) => format!("(Some {})", coq_db(d, false)),
        None => "None".to_string(),
    }
}
/// one item of a printed pattern ("3", "\"a\"", "V1", "_placeholder_7") as `option value`
pub fn coq_item(s: &str) -> String {
    let s = s.trim();
    if s.starts_with('"') && s.ends_with('"') && s.len() >= 2 {
        return format!("(Some (VStr {}))", coq_str(&s[1..s.len() - 1]));
    }
    if let Ok(i) = s.parse::<i64>() {
        return format!("(Some (VI64 {}))", coq_z(i as i128));
    }
    "None".to_string()
}
/// one item of a printed pattern as a `pterm`: a value, or the variable left in place
pub fn coq_pterm(s: &str) -> String {
    let s = s.trim();
    if s.starts_with('"') && s.ends_with('"') && s.len() >= 2 {
        return format!("(PC (VStr {}))", coq_str(&s[1..s.len() - 1]));
    }
    if let Ok(i) = s.parse::<i64>() {
        return format!("(PC (VI64 {}))", coq_z(i as i128));
    }
    if let Some(k) = s.strip_prefix("_placeholder_") {
        return format!("(PV {})", coq_n(1000 + k.parse::<u128>().unwrap_or(0)));
    }
    format!("(PV {})", coq_n(var_id(s)))
}
pub fn coq_pattern(s: &str) -> String {
    let v: Vec<String> = split_items(s).iter().map(|x| coq_pterm(x)).collect();
    coq_list(&v)
}

pub struct TreePrinter<'a> {
    pub tree: &'a ProofTree,
    pub rule_texts: &'a [String],
    pub budget: usize,
}
impl<'a> TreePrinter<'a> {
    /// the DAG unfolded from `id` as a `ptree`; None when the unfolding is too large
    pub fn ptree(&mut self, id: &str, depth: usize) -> Option<String> {
        if self.budget == 0 {
            return None;
        }
        self.budget -= 1;
        let n = match self.tree.nodes.get(id) {
            Some(n) => n,
            None => return Some("POther".into()),
        };
        if depth > 150 {
            return Some("POther".into());
        }
        let r = coq_n(rel_id(&n.conclusion.pred));
        let tu = coq_vals(&n.conclusion.args);
        Some(match n.kind {
            NodeKind::Fact => {
                let d = matches!(n.source, Some(FactSource::Derived));
                format!("(PFact {} {} {})", coq_bool(d), r, tu)
            }
            NodeKind::Truncated => format!("(PTrunc {} {})", r, tu),
            NodeKind::Negation => {
                let pat = n.negation.as_ref().map(|x| coq_pattern(&x.pattern)).unwrap_or_else(|| "[]".into());
                format!("(PNeg {} {} {})", r, pat, tu)
            }
            NodeKind::Rule => {
                let ci = n
                    .rule_id
                    .as_ref()
                    .and_then(|t| self.rule_texts.iter().position(|x| x == t))
                    .unwrap_or(999);
                let mut b: Vec<(u128, String)> = n
                    .bindings
                    .as_ref()
                    .map(|m| m.iter().map(|(k, v)| (var_id(k), coq_value(v))).collect())
                    .unwrap_or_default();
                b.sort();
                let th: Vec<String> = b.iter().map(|(k, v)| format!("({}, {})", coq_n(*k), v)).collect();
                let mut kids = vec![];
                for c in &n.children {
                    kids.push(self.ptree(c, depth + 1)?);
                }
                format!("(PRule {} {} {} {} {})", r, tu, coq_nat(ci), coq_list(&th), coq_list(&kids))
            }
            _ => "POther".to_string(),
        })
    }
}
pub fn tree_to_coq(tree: &ProofTree, rule_texts: &[String]) -> Option<String> {
    let root = tree.roots.first()?;
    let mut p = TreePrinter { tree, rule_texts, budget: 6000 };
    p.ptree(root, 0)
}
pub fn tree_stats(tree: &ProofTree) -> (usize, bool, bool, bool) {
    let mut trunc = false;
    let mut derived = false;
    let mut neg = false;
    for n in tree.nodes.values() {
        match n.kind {
            NodeKind::Truncated => trunc = true,
            NodeKind::Negation => neg = true,
            NodeKind::Fact => {
                if matches!(n.source, Some(FactSource::Derived)) {
                    derived = true
                }
            }
            _ => {}
        }
    }
    (tree.max_depth(), trunc, derived, neg)
}

/// per-clause blockers of a why-not tree: (no_rules, [option blocker as Coq text])
pub fn report_to_coq(tree: &ProofTree) -> (bool, Vec<String>) {
    let mut out = vec![];
    let mut norules = false;
    let root = match tree.roots.first().and_then(|r| tree.nodes.get(r)) {
        Some(r) => r,
        None => return (false, vec!["(Some (BCmpErr 997%nat))".into()]),
    };
    for cid in &root.children {
        let c = match tree.nodes.get(cid) {
            Some(c) => c,
            None => {
                out.push("(Some (BCmpErr 996%nat))".into());
                continue;
            }
        };
        if let Some(w) = &c.why_not {
            if c.rule_id.is_none() {
                norules = true;
                continue;
            }
            out.push(format!("(Some {})", blocker_to_coq(&w.blocker, w.clause_index)));
            continue;
        }
        let mut found = None;
        for k in &c.children {
            if let Some(kn) = tree.nodes.get(k) {
                if kn.kind == NodeKind::WhyNot {
                    if let Some(w) = &kn.why_not {
                        found = Some(blocker_to_coq(&w.blocker, w.clause_index));
                        break;
                    }
                }
            }
        }
        out.push(match found {
            Some(b) => format!("(Some {})", b),
            None => "None".to_string(),
        });
    }
    (norules, out)
}
fn blocker_to_coq(b: &Blocker, idx: usize) -> String {
    match b {
        Blocker::HeadUnificationFailed { .. } => "BHead".to_string(),
        Blocker::BodyAtomFailed { predicate_index, predicate_text, reason } => {
            if reason.contains("unbound") {
                format!("(BCmpErr {})", coq_nat(*predicate_index))
            } else {
                let p = predicate_text.find('(').unwrap_or(0);
                let rel = &predicate_text[..p];
                let inner = if p + 1 <= predicate_text.len().saturating_sub(1) {
                    &predicate_text[p + 1..predicate_text.len() - 1]
                } else {
                    ""
                };
                format!("(BAtom {} {} {})", coq_nat(*predicate_index), coq_n(rel_id(rel)), coq_pattern(inner))
            }
        }
        Blocker::ComparisonFailed { lhs_value, rhs_value, .. } => {
            format!("(BCmp {} {} {})", coq_nat(idx), coq_item(lhs_value), coq_item(rhs_value))
        }
        Blocker::NegationSucceeded { relation, matching_tuple } => {
            format!("(BNegHit {} {} {})", coq_nat(idx), coq_n(rel_id(relation)), coq_vals(matching_tuple))
        }
        Blocker::HnswNotInTopK { .. } => "(BCmpErr 995%nat)".to_string(),
    }
}

// ------------------------------------------------------------------ model -> real data
pub fn model_to_data(p: &Prog, m: &[BTreeSet<Vec<V>>], only_derived: bool) -> HashMap<String, Vec<Tuple>> {
    let mut d = HashMap::new();
    for r in 0..p.nrel() {
        if only_derived && r < p.nbase {
            continue;
        }
        let ts: Vec<Tuple> = m[r].iter().map(|t| Tuple::new(t.iter().map(|x| x.value()).collect())).collect();
        d.insert(format!("r{}", r), ts);
    }
    d
}
pub fn tuple_of(t: &[V]) -> Tuple {
    Tuple::new(t.iter().map(|x| x.value()).collect())
}
pub fn tuple_text(t: &[V]) -> String {
    let v: Vec<String> = t.iter().map(|x| x.text()).collect();
    v.join(", ")
}
/// all tuples of the given arity over the domain
pub fn all_tuples(dom: &[V], arity: usize) -> Vec<Vec<V>> {
    let mut out: Vec<Vec<V>> = vec![vec![]];
    for _ in 0..arity {
        let mut nx = vec![];
        for t in &out {
            for v in dom {
                let mut t2 = t.clone();
                t2.push(v.clone());
                nx.push(t2);
            }
        }
        out = nx;
    }
    out
}

// ------------------------------------------------------------------ hand-written corpus
pub fn corpus() -> Vec<Prog> {
    let ints = vec![V::I(0), V::I(1), V::I(2), V::I(3)];
    let mixed = vec![V::I(0), V::I(1), V::S("a".into()), V::S("b".into())];
    vec![
        // chain of derived relations
        parse_prog(1, &[1, 1, 1], &ints, "r0(1).\nr0(2).\nr1(V0) <- r0(V0)\nr2(V0) <- r1(V0)", "chain"),
        // transitive closure on a path 0->1->2->3 (derivation depth grows with the path)
        parse_prog(
            1,
            &[2, 2],
            &ints,
            "r0(0, 1).\nr0(1, 2).\nr0(2, 3).\nr1(V0, V1) <- r0(V0, V1)\nr1(V0, V1) <- r0(V0, V2), r1(V2, V1)",
            "recursion",
        ),
        // transitive closure on a cycle, left-recursive
        parse_prog(
            1,
            &[2, 2],
            &ints,
            "r0(0, 1).\nr0(1, 0).\nr0(1, 2).\nr1(V0, V1) <- r0(V0, V1)\nr1(V0, V1) <- r1(V0, V2), r0(V2, V1)",
            "recursion",
        ),
        // negation over a DERIVED relation with an alternative clause (DESIGN 9 row 19):
        // r3(1) is an answer through the second clause only; r2(1) holds
        parse_prog(
            2,
            &[1, 1, 1, 1],
            &ints,
            "r0(1).\nr0(2).\nr0(3).\nr1(1).\nr2(V0) <- r1(V0)\nr3(V0) <- r0(V0), !r2(V0)\nr3(V0) <- r1(V0)",
            "neg_derived",
        ),
        // negation over a base relation
        parse_prog(2, &[1, 1, 1], &ints, "r0(1).\nr0(2).\nr1(2).\nr2(V0) <- r0(V0), !r1(V0)", "neg_base"),
        // comparison before its binding atom
        parse_prog(1, &[2, 1], &ints, "r0(1, 2).\nr0(2, 1).\nr0(3, 3).\nr1(V0) <- V0 < V1, r0(V0, V1)", "shuffled"),
        // comparison after its binding atom
        parse_prog(1, &[2, 1], &ints, "r0(1, 2).\nr0(2, 1).\nr0(3, 3).\nr1(V0) <- r0(V0, V1), V0 < V1", "cmp"),
        // greedy why-not: r2(1) holds through r0(1,3), r1(3); the first match r0(1,2) leads nowhere
        parse_prog(2, &[2, 1, 1], &ints, "r0(1, 2).\nr0(1, 3).\nr1(3).\nr2(V0) <- r0(V0, V1), r1(V1)", "join"),
        // diamond, constants in head and body, strings
        parse_prog(
            2,
            &[2, 2, 2],
            &mixed,
            "r0(0, \"a\").\nr0(1, \"b\").\nr1(\"a\", 1).\nr2(V0, 1) <- r0(V0, \"a\")\nr2(V0, V1) <- r0(V0, V2), r1(V2, V1)",
            "diamond",
        ),
        // repeated variables in head and body
        parse_prog(1, &[2, 2], &ints, "r0(1, 1).\nr0(1, 2).\nr0(2, 2).\nr1(V0, V0) <- r0(V0, V0)", "chain"),
        // a variable repeated inside a body atom over a DERIVED relation: r2 = {0} through r1(0, 0) only;
        // candidates enumerated without derived data must not bind V1 twice (r1(0, 2) is no instance)
        parse_prog(1, &[2, 2, 1], &ints, "r0(0, 2).\nr0(0, 0).\nr0(1, 2).\nr1(V0, V1) <- r0(V0, V1)\nr2(V0) <- r1(V0, V1), r1(V1, V1)", "join"),
        parse_prog(1, &[2, 3, 1], &ints, "r0(0, 2).\nr0(0, 0).\nr0(2, 2).\nr1(V0, V0, V1) <- r0(V0, V1)\nr2(V2) <- r1(V2, V3, V3)", "join"),
        // negation before its binding atom
        parse_prog(2, &[1, 1, 1], &ints, "r0(1).\nr0(2).\nr1(2).\nr2(V0) <- !r1(V1), r0(V0), r0(V1), V0 = V1", "shuffled"),
        // left-recursive closure over a graph with cycles: a sub-goal that fails only because its
        // ancestor is on the visited stack is cached as a Derived-source fallback leaf and reused
        parse_prog(
            1,
            &[2, 2, 2],
            &ints,
            "r0(3, 1).\nr0(2, 3).\nr0(0, 3).\nr0(1, 0).\nr0(1, 3).\nr0(0, 2).\nr1(V0, V1) <- r0(V0, V1)\nr1(V0, V1) <- r1(V0, V2), r0(V2, V1)\nr2(V0, V0) <- r1(V0, V0), V0 <= 2",
            "recursion",
        ),
        // negated relation has rules AND an (emptied) stored-fact entry; r3(1) only through the last clause
        parse_prog(
            2,
            &[1, 1, 1, 1],
            &ints,
            "r0(1).\nr0(2).\nr0(3).\nr1(1).\nr2 emptied\nr2(V0) <- r1(V0)\nr3(V0) <- r0(V0), !r2(V0)\nr3(V0) <- r1(V0)",
            "derived_with_emptied_store",
        ),
        // the same with a stored fact r2(2) that the engine ignores (r2 has a non-recursive clause)
        parse_prog(
            2,
            &[1, 1, 1, 1],
            &ints,
            "r0(1).\nr0(2).\nr0(3).\nr1(1).\nr2(2).\nr2(V0) <- r1(V0)\nr3(V0) <- r0(V0), !r2(V0)\nr3(V0) <- r1(V0)",
            "derived_with_stored_facts",
        ),
        // positive use of ignored stored facts: r2(3) is stored, r2 = {1, 2} by its rule
        parse_prog(
            1,
            &[2, 1, 1],
            &ints,
            "r0(1, 2).\nr0(2, 3).\nr1(3).\nr1(V0) <- r0(V0, V1)\nr2(V0) <- r0(V0, V1), r1(V2)",
            "derived_with_stored_facts",
        ),
        // every clause self-recursive: the stored fact r1(3, 1) is the base of the closure; positive and negated use
        parse_prog(
            1,
            &[2, 2, 1],
            &ints,
            "r0(1, 2).\nr0(2, 0).\nr1(3, 1).\nr1(V0, V1) <- r1(V0, V2), r0(V2, V1)\nr2(V1) <- r1(V0, V1), !r1(V1, V0)",
            "derived_with_stored_facts",
        ),
        // derived relation used twice with a join
        parse_prog(
            1,
            &[2, 2, 2],
            &ints,
            "r0(0, 1).\nr0(1, 2).\nr0(2, 0).\nr1(V0, V1) <- r0(V0, V1)\nr1(V0, V1) <- r0(V0, V2), r1(V2, V1)\nr2(V0, V1) <- r1(V0, V1), r1(V1, V0), V0 < V1",
            "recursion",
        ),
    ]
}

// ------------------------------------------------------------------ case assembly
pub const LIB_TIMEOUT_S: u64 = 8;
pub struct Loaded {
    pub sys: Sys,
    pub rules: Vec<Rule>,
    pub rule_texts: Vec<String>,
    pub rules_sub: Vec<Rule>,
    pub rule_texts_sub: Vec<String>,
    pub base: HashMap<String, Vec<Tuple>>,
    pub model: Vec<BTreeSet<Vec<V>>>,
}
pub fn load(p: &Prog) -> Result<Loaded, String> {
    let sys = new_sys();
    sys.load(p)?;
    let (rules, base) = sys.rules_and_base();
    let rule_texts: Vec<String> = rules.iter().map(|r| format!("{}", r)).collect();
    // the library paths use the clauses in SUBMISSION order (deterministic; the stored order is a
    // topological sort over a HashMap); the handler path uses whatever order the system keeps
    let mut rules_sub: Vec<Rule> = vec![];
    let mut used = vec![false; rules.len()];
    for c in &p.clauses {
        let t = c.text();
        if let Some(i) = (0..rules.len()).find(|i| !used[*i] && rule_texts[*i] == t) {
            used[i] = true;
            rules_sub.push(rules[i].clone());
        }
    }
    for i in 0..rules.len() {
        if !used[i] {
            rules_sub.push(rules[i].clone());
        }
    }
    let rule_texts_sub = rules_sub.iter().map(|r| format!("{}", r)).collect();
    let model = perfect(p);
    Ok(Loaded { sys, rules, rule_texts, rules_sub, rule_texts_sub, base, model })
}
pub fn prog_desc(p: &Prog) -> serde_json::Value {
    serde_json::json!({"program": p.text(), "nbase": p.nbase, "arity": p.arity, "shape": p.shape})
}
pub fn query_text(p: &Prog, r: usize) -> String {
    let vs: Vec<String> = (0..p.arity[r]).map(|i| format!("X{}", i)).collect();
    format!("?r{}({})", r, vs.join(", "))
}

/// C21 / C22: answers of every derived relation with their proof trees
pub fn run_why(args: &Args, header: &str, checker: &str) {
    let mut rng = Rng::new(args.seed);
    let mut sink = Sink::new(args, header, "whycase", checker, 25);
    let corp = corpus();
    let ncorp = corp.len();
    let mut produced = 0usize;
    let mut attempts = 0usize;
    while produced < args.n {
        // every corpus program runs on all three paths, then random programs
        let from_corpus = attempts < 3 * ncorp;
        let p = if from_corpus { corp[attempts / 3].clone() } else { gen_prog(&mut rng) };
        let corpus_path = (attempts % 3) as u64;
        attempts += 1;
        if attempts > args.n * 4 + 80 {
            break;
        }
        // path and depth limit are drawn up front (the random stream does not depend on outcomes)
        let path = if from_corpus { corpus_path } else { rng.below(3) };
        let md_choice = if from_corpus { *[3usize, 50, 2, 6].get((attempts / 3) % 4).unwrap() } else { *rng.pick(&[1usize, 2, 3, 4, 6, 50]) };
        let ld = match catch(std::panic::AssertUnwindSafe(|| load(&p))) {
            Ok(Ok(l)) => l,
            Ok(Err(e)) => {
                sink.tally("rejected_by_system");
                if from_corpus {
                    eprintln!("corpus program rejected: {} :: {}", e, p.text());
                }
                continue;
            }
            Err(e) => {
                sink.tally("panic_on_load");
                eprintln!("panic while loading: {}", e);
                continue;
            }
        };
        produced += 1;
        // without derived data the chainer re-derives sub-goals by enumeration, which costs
        // time exponential in the depth limit: keep the limit small on that path
        let max_depth = match path {
            0 => 50,
            2 => md_choice.min(4),
            _ => md_choice,
        };
        let derived_model = model_to_data(&p, &ld.model, true);
        let mut rel_cases: Vec<String> = vec![];
        let mut nontriv = false;
        let mut n_answers = 0usize;
        let mut desc_answers = vec![];
        for r in p.nbase..p.nrel() {
            let mut answers: Vec<String> = vec![];
            if path == 0 {
                let q = format!(".why {}", query_text(&p, r));
                match catch(std::panic::AssertUnwindSafe(|| ld.sys.run(&q))) {
                    Ok(Ok(qr)) => {
                        let trees = qr.proof_trees.unwrap_or_default();
                        for t in &trees {
                            let root = t.roots.first().and_then(|id| t.nodes.get(id));
                            let tu = match root {
                                Some(n) => coq_vals(&n.conclusion.args),
                                None => continue,
                            };
                            let (d, tr, de, ng) = tree_stats(t);
                            tally_tree(&mut sink, d, tr, de, ng);
                            if d >= 2 {
                                nontriv = true;
                            }
                            match tree_to_coq(t, &ld.rule_texts) {
                                Some(pt) => answers.push(format!("({}, Some {})", tu, pt)),
                                None => sink.tally("tree_too_big_skipped"),
                            }
                            n_answers += 1;
                        }
                        if trees.len() != ld.model[r].len() {
                            sink.tally("engine_answer_count_differs_from_model");
                        }
                    }
                    Ok(Err(e)) => {
                        // no explanation at all for this relation: every answer is unexplained
                        sink.tally("why_error");
                        desc_answers.push(format!("r{}: error {}", r, e));
                        for t in &ld.model[r] {
                            answers.push(format!("({}, None)", coq_tuple(&tuple_of(t))));
                        }
                    }
                    Err(e) => {
                        sink.tally("why_panic");
                        answers.push("([], Some POther)".to_string());
                        desc_answers.push(format!("r{}: panic {}", r, e));
                    }
                }
            } else {
                let rules = std::sync::Arc::new(ld.rules_sub.clone());
                let base = std::sync::Arc::new(ld.base.clone());
                let der = std::sync::Arc::new(derived_model.clone());
                let mut timed_out = false;
                for t in &ld.model[r] {
                    if timed_out {
                        sink.tally("skipped_after_timeout");
                        continue;
                    }
                    let tup = tuple_of(t);
                    let name = format!("r{}", r);
                    let (rules2, base2, der2, tup2) = (rules.clone(), base.clone(), der.clone(), tup.clone());
                    let res = with_timeout(LIB_TIMEOUT_S, move || {
                        catch(std::panic::AssertUnwindSafe(|| {
                            let cfg = ProofConfig { max_depth, ..ProofConfig::default() };
                            let ctx0 = ProofContext::new(&rules2, &base2, cfg);
                            let ctx = if path == 1 { ctx0.with_derived_data(&der2) } else { ctx0 };
                            build_proof_tree(&name, &tup2, &ctx)
                        }))
                    });
                    let tu = coq_tuple(&tup);
                    n_answers += 1;
                    match res {
                        Some(Ok(Ok(tree))) => {
                            let (d, tr, de, ng) = tree_stats(&tree);
                            tally_tree(&mut sink, d, tr, de, ng);
                            if d >= 2 {
                                nontriv = true;
                            }
                            match tree_to_coq(&tree, &ld.rule_texts_sub) {
                                Some(pt) => answers.push(format!("({}, Some {})", tu, pt)),
                                None => sink.tally("tree_too_big_skipped"),
                            }
                        }
                        Some(Ok(Err(_))) => {
                            sink.tally("no_derivation_found");
                            answers.push(format!("({}, None)", tu));
                        }
                        Some(Err(e)) => {
                            sink.tally("build_panic");
                            answers.push(format!("({}, Some POther)", tu));
                            desc_answers.push(format!("r{}({}): panic {}", r, tuple_text(t), e));
                        }
                        None => {
                            sink.tally("build_timeout");
                            timed_out = true;
                            answers.push(format!("({}, None)", tu));
                            desc_answers.push(format!("r{}({}): no result within {} s", r, tuple_text(t), LIB_TIMEOUT_S));
                        }
                    }
                }
            }
            rel_cases.push(format!("({}, {})", coq_n(r as u128), coq_list(&answers)));
        }
        // the derived data the provenance code saw: path 0 = the engine's, path 1 = the model, path 2 = none
        let engine_ctx = if path == 0 {
            let st = ld.sys.handler.get_storage();
            let r = p.nrel() - 1;
            let vs: Vec<String> = (0..p.arity[r]).map(|i| format!("X{}", i)).collect();
            let q = format!("__query__({}) <- r{}({})", vs.join(", "), r, vs.join(", "));
            st.execute_and_get_context("default", &q).ok().map(|x| x.3)
        } else {
            None
        };
        let der_coq = match path {
            0 => coq_opt_db(engine_ctx.as_ref()),
            1 => coq_opt_db(Some(&derived_model)),
            _ => "None".to_string(),
        };
        let coq = format!(
            "WhyCase {} {} {} {} {} {} {}",
            coq_nat(p.nrel()),
            coq_program(if path == 0 { &ld.rules } else { &ld.rules_sub }),
            coq_db(&ld.base, false),
            der_coq,
            coq_n(path as u128),
            coq_nat(max_depth),
            coq_list(&rel_cases)
        );
        for s in &p.shape {
            sink.tally(&format!("shape:{}", s));
        }
        sink.tally(&format!("path:{}", path));
        sink.tally(&format!("max_depth:{}", max_depth));
        sink.tally_n("answers", n_answers as u64);
        if p.clauses.iter().any(|c| !bound_before_use(c)) {
            sink.tally("not_bound_before_use");
        }
        let mut tags: Vec<&str> = vec![];
        if from_corpus {
            tags.push("corpus");
        }
        tags.push(match path {
            0 => "handler",
            1 => "lib_derived",
            _ => "lib_noderived",
        });
        let key = if nontriv { Some(format!("{}|{}|{}", p.text(), path, max_depth)) } else { None };
        let mut d = prog_desc(&p);
        d["path"] = serde_json::json!(path);
        d["max_depth"] = serde_json::json!(max_depth);
        d["rule_order_used"] = serde_json::json!(if path == 0 { &ld.rule_texts } else { &ld.rule_texts_sub });
        d["answers"] = serde_json::json!(n_answers);
        d["notes"] = serde_json::json!(desc_answers);
        sink.push(coq, d, &tags, key);
    }
    sink.finish();
}
fn tally_tree(sink: &mut Sink, depth: usize, trunc: bool, derived: bool, neg: bool) {
    sink.tally(&format!("tree_depth:{}", depth.min(9)));
    if trunc {
        sink.tally("tree_has_truncated");
    }
    if derived {
        sink.tally("tree_has_derived_leaf");
    }
    if neg {
        sink.tally("tree_has_negation");
    }
}

/// C23: why-not explanations of candidate tuples of every derived relation
pub fn run_why_not(args: &Args, header: &str, checker: &str) {
    let mut rng = Rng::new(args.seed);
    let mut sink = Sink::new(args, header, "whynotcase", checker, 25);
    let corp = corpus();
    let ncorp = corp.len();
    let mut produced = 0usize;
    let mut attempts = 0usize;
    while produced < args.n {
        let from_corpus = attempts < 2 * ncorp;
        let p = if from_corpus { corp[attempts / 2].clone() } else { gen_prog(&mut rng) };
        let corpus_path = (attempts % 2) as u64;
        attempts += 1;
        if attempts > args.n * 4 + 80 {
            break;
        }
        // why-not without derived data is not a meaningful configuration: paths 0 and 1 only
        let path = if from_corpus { corpus_path } else { rng.below(2) };
        let sample_seed = rng.next();
        let ld = match catch(std::panic::AssertUnwindSafe(|| load(&p))) {
            Ok(Ok(l)) => l,
            Ok(Err(_)) => {
                sink.tally("rejected_by_system");
                continue;
            }
            Err(_) => {
                sink.tally("panic_on_load");
                continue;
            }
        };
        produced += 1;
        let derived_model = model_to_data(&p, &ld.model, true);
        let mut rel_cases = vec![];
        let mut nontriv = false;
        let mut ntargets = 0u64;
        let mut notes = vec![];
        let mut srng = Rng::new(sample_seed);
        for r in p.nbase..p.nrel() {
            let mut cands = all_tuples(&p.dom, p.arity[r]);
            if path == 0 {
                // the end-to-end path re-evaluates the program per call: sample
                srng.shuffle(&mut cands);
                cands.truncate(10);
            }
            let mut targets = vec![];
            for t in &cands {
                let in_model = ld.model[r].contains(t);
                let name = format!("r{}", r);
                let tree: Result<ProofTree, String> = if path == 0 {
                    let q = format!(".why_not r{}({})", r, tuple_text(t));
                    match catch(std::panic::AssertUnwindSafe(|| ld.sys.run(&q))) {
                        Ok(Ok(qr)) => qr.proof_trees.and_then(|mut v| if v.is_empty() { None } else { Some(v.remove(0)) }).ok_or_else(|| "no tree".to_string()),
                        Ok(Err(e)) => Err(e),
                        Err(e) => Err(format!("panic {}", e)),
                    }
                } else {
                    let ctx0 = ProofContext::new(&ld.rules_sub, &ld.base, ProofConfig::default());
                    let ctx = if path == 1 { ctx0.with_derived_data(&derived_model) } else { ctx0 };
                    let tup = tuple_of(t);
                    catch(std::panic::AssertUnwindSafe(|| explain_why_not(&name, &tup, &ctx)))
                };
                ntargets += 1;
                match tree {
                    Ok(tree) => {
                        let (norules, rep) = report_to_coq(&tree);
                        if rep.iter().any(|x| x != "None") && rep.iter().any(|x| x.contains("BAtom") || x.contains("BCmp") || x.contains("BNeg")) {
                            nontriv = true;
                        }
                        for x in &rep {
                            let k = if x == "None" {
                                "unblocked"
                            } else if x.contains("BHead") {
                                "head"
                            } else if x.contains("BAtom") {
                                "atom"
                            } else if x.contains("BCmpErr") {
                                "cmp_unbound"
                            } else if x.contains("BCmp") {
                                "cmp"
                            } else {
                                "neg_hit"
                            };
                            sink.tally(&format!("blocker:{}", k));
                        }
                        sink.tally(if in_model { "target_in_model" } else { "target_not_in_model" });
                        targets.push(format!("({}, {}, {})", coq_tuple(&tuple_of(t)), coq_bool(norules), coq_list(&rep)));
                    }
                    Err(e) => {
                        sink.tally("why_not_error");
                        notes.push(format!("r{}({}): {}", r, tuple_text(t), e));
                        targets.push(format!("({}, false, [Some (BCmpErr 994%nat)])", coq_tuple(&tuple_of(t))));
                    }
                }
            }
            rel_cases.push(format!("({}, {})", coq_n(r as u128), coq_list(&targets)));
        }
        let der_coq = match path {
            1 => coq_opt_db(Some(&derived_model)),
            _ => "None".to_string(),
        };
        let coq = format!(
            "WhyNotCase {} {} {} {} {} {}",
            coq_nat(p.nrel()),
            coq_program(if path == 0 { &ld.rules } else { &ld.rules_sub }),
            coq_db(&ld.base, false),
            der_coq,
            coq_n(path as u128),
            coq_list(&rel_cases)
        );
        for s in &p.shape {
            sink.tally(&format!("shape:{}", s));
        }
        sink.tally(&format!("path:{}", path));
        sink.tally_n("targets", ntargets);
        let mut tags: Vec<&str> = vec![];
        if from_corpus {
            tags.push("corpus");
        }
        tags.push(match path {
            0 => "handler",
            1 => "lib_derived",
            _ => "lib_noderived",
        });
        let key = if nontriv { Some(format!("{}|{}", p.text(), path)) } else { None };
        let mut d = prog_desc(&p);
        d["path"] = serde_json::json!(path);
        d["rule_order_used"] = serde_json::json!(if path == 0 { &ld.rule_texts } else { &ld.rule_texts_sub });
        d["targets"] = serde_json::json!(ntargets);
        d["notes"] = serde_json::json!(notes);
        sink.push(coq, d, &tags, key);
    }
    sink.finish();
}

/// manual exploration: `c21 --explore '<statement>' ...` runs statements through a Handler
pub fn explore(stmts: &[String]) {
    let sys = new_sys();
    for p in stmts {
        let p = p.replace("\\n", "\n");
        println!(">>> {}", p);
        if p == "dump" {
            let (rules, base) = sys.rules_and_base();
            for r in &rules {
                println!("rule: {}", r);
            }
            println!("base: {:?}", base);
            continue;
        }
        if let Some(q) = p.strip_prefix("ctx ") {
            let st = sys.handler.get_storage();
            match st.execute_and_get_context("default", q) {
                Ok((res, _rules, base, derived, _)) => println!("res {:?}\nbase {:?}\nderived {:?}", res, base, derived),
                Err(e) => println!("ERR {}", e),
            }
            continue;
        }
        match sys.run(&p) {
            Ok(qr) => {
                println!("rows: {:?}", qr.rows);
                if let Some(ts) = qr.proof_trees {
                    for t in ts {
                        println!("{}", t.format_tree());
                    }
                }
            }
            Err(e) => println!("ERR {}", e),
        }
    }
}

/// manual replay of the library paths: `c21 --explore-lib <path> <max_depth> <nbase> <arity,arity,..> '<program in corpus syntax>'`
pub fn explore_lib(a: &[String]) {
    let path: u64 = a[0].parse().expect("path");
    let max_depth: usize = a[1].parse().expect("max_depth");
    let nbase: usize = a[2].parse().expect("nbase");
    let arity: Vec<usize> = a[3].split(',').map(|x| x.parse().expect("arity")).collect();
    let dom = vec![V::I(0), V::I(1), V::I(2), V::I(3)];
    let p = parse_prog(nbase, &arity, &dom, &a[4].replace("\\n", "\n"), "manual");
    let ld = load(&p).expect("load");
    let derived_model = model_to_data(&p, &ld.model, true);
    for r in p.nbase..p.nrel() {
        for t in &ld.model[r] {
            let cfg = ProofConfig { max_depth, ..ProofConfig::default() };
            let ctx0 = ProofContext::new(&ld.rules_sub, &ld.base, cfg);
            let ctx = if path == 1 { ctx0.with_derived_data(&derived_model) } else { ctx0 };
            println!("== r{}({})", r, tuple_text(t));
            match build_proof_tree(&format!("r{}", r), &tuple_of(t), &ctx) {
                Ok(tree) => {
                    let mut ids: Vec<(usize, &String)> = tree.nodes.keys().map(|k| (k[1..].parse().unwrap_or(0), k)).collect();
                    ids.sort();
                    println!("root {:?}", tree.roots);
                    for (_, k) in ids {
                        let n = &tree.nodes[k];
                        println!("  {} {:?} {}({:?}) rule={:?} kids={:?}", k, n.kind, n.conclusion.pred, n.conclusion.args, n.rule_id, n.children);
                    }
                }
                Err(e) => println!("Err {}", e),
            }
        }
    }
}
