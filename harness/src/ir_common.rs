//! Shared by c03.rs and c05.rs (included with `#[path]`): random typed databases, random
//! well-formed IR trees over every IRNode kind / Predicate constructor, and printers of
//! IRNode / Predicate / IRExpression as Coq terms of `Model/IR.v`.
#![allow(dead_code)]
use inputlayer::ast::{ArithExpr, ArithOp as AstOp, ComparisonOp};
use inputlayer::ir::{AggregateFunction, ArithOp, IRExpression, IRNode, Predicate};
use inputlayer::value::{Tuple, Value};
use std::collections::HashMap;
use vharness::*;

// ------------------------------------------------------------------ types of columns
#[derive(Clone, Copy, PartialEq, Eq, Debug)]
pub enum Ty {
    Int,
    Str,
    Bool,
    Float,
    /// a column whose values may be Null / of mixed kinds: no typed operation is generated on it
    Opaque,
}

pub struct Db {
    pub rels: Vec<(String, Vec<Ty>, Vec<Tuple>)>,
}

pub const STRS: [&str; 4] = ["a", "b", "ab", ""];

pub fn gen_val(r: &mut Rng, ty: Ty) -> Value {
    match ty {
        Ty::Int => {
            if r.chance(1, 12) {
                Value::Int64(r.range(-3, 9))
            } else {
                Value::Int64(r.range(0, 3))
            }
        }
        Ty::Str => Value::String(STRS[r.below(4) as usize].into()),
        Ty::Bool => Value::Bool(r.chance(1, 2)),
        Ty::Float => Value::Float64(r.range(-4, 8) as f64 / 4.0 + 0.0),
        Ty::Opaque => match r.below(3) {
            0 => Value::Null,
            1 => Value::Int64(r.range(0, 2)),
            _ => Value::String("a".into()),
        },
    }
}

/// Relations r0..r7 with fixed column types (r6, r7: three / four Int columns, so that joins on
/// several keys in any order leave non-key columns behind them); 0-8 distinct tuples each.
pub fn gen_db(r: &mut Rng) -> Db {
    let shapes: Vec<Vec<Ty>> = vec![
        vec![Ty::Int, Ty::Int],
        vec![Ty::Int, Ty::Int],
        vec![Ty::Int, Ty::Str, Ty::Int],
        vec![Ty::Int],
        vec![Ty::Str, Ty::Bool],
        vec![Ty::Int, Ty::Float],
        vec![Ty::Int, Ty::Int, Ty::Int],
        vec![Ty::Int, Ty::Int, Ty::Int, Ty::Int],
    ];
    let mut rels = vec![];
    for (i, tys) in shapes.into_iter().enumerate() {
        let n = if r.chance(1, 10) { 0 } else { r.range(2, 8) };
        let mut ts: Vec<Tuple> = vec![];
        for _ in 0..n {
            let t = Tuple::new(tys.iter().map(|ty| gen_val(r, *ty)).collect());
            if !ts.contains(&t) {
                ts.push(t);
            }
        }
        rels.push((format!("r{}", i), tys, ts));
    }
    Db { rels }
}

// ------------------------------------------------------------------ tree generator
pub struct Gen<'a> {
    pub r: &'a mut Rng,
    pub db: &'a Db,
    pub next_col: usize,
    /// allow `Filter(_, False)` / `Union []`
    pub allow_void: bool,
    /// allow duplicate right keys in joins
    pub allow_dup_keys: bool,
    /// only operators that work tuple by tuple (no Join / Antijoin / JoinFlatMap / Aggregate)
    pub no_combine: bool,
    pub kinds: std::collections::BTreeMap<&'static str, u64>,
}

fn cmp_ops() -> [ComparisonOp; 6] {
    [
        ComparisonOp::Equal,
        ComparisonOp::NotEqual,
        ComparisonOp::LessThan,
        ComparisonOp::LessOrEqual,
        ComparisonOp::GreaterThan,
        ComparisonOp::GreaterOrEqual,
    ]
}

impl<'a> Gen<'a> {
    pub fn new(r: &'a mut Rng, db: &'a Db) -> Self {
        Gen { r, db, next_col: 0, allow_void: true, allow_dup_keys: false, no_combine: false, kinds: Default::default() }
    }
    fn tally(&mut self, k: &'static str) {
        *self.kinds.entry(k).or_insert(0) += 1;
    }
    pub fn names(&mut self, n: usize) -> Vec<String> {
        (0..n)
            .map(|_| {
                self.next_col += 1;
                format!("c{}", self.next_col)
            })
            .collect()
    }
    fn cols_of(tys: &[Ty], ty: Ty) -> Vec<usize> {
        tys.iter().enumerate().filter(|(_, t)| **t == ty).map(|(i, _)| i).collect()
    }
    fn any_col(&mut self, tys: &[Ty]) -> usize {
        if tys.is_empty() {
            0
        } else {
            self.r.below(tys.len() as u64) as usize
        }
    }
    /// a column of type `ty` if there is one (mostly), else any column
    fn col_of(&mut self, tys: &[Ty], ty: Ty) -> usize {
        let c = Self::cols_of(tys, ty);
        if !c.is_empty() && !self.r.chance(1, 10) {
            c[self.r.below(c.len() as u64) as usize]
        } else {
            self.any_col(tys)
        }
    }

    pub fn gen_arith(&mut self, tys: &[Ty], vm: &mut HashMap<String, usize>, depth: u32) -> ArithExpr {
        let ints = Self::cols_of(tys, Ty::Int);
        let k = self.r.below(if depth == 0 { 2 } else { 4 });
        match k {
            0 => ArithExpr::Constant(self.r.range(-2, 5)),
            1 => {
                if ints.is_empty() && !self.r.chance(1, 6) {
                    ArithExpr::Constant(self.r.range(0, 3))
                } else {
                    // mostly an integer column; sometimes a missing variable or a non-integer column
                    let name = format!("V{}", self.r.below(3));
                    if self.r.chance(1, 12) {
                        return ArithExpr::Variable("Vmissing".to_string());
                    }
                    let col = if ints.is_empty() { self.any_col(tys) } else { self.col_of(tys, Ty::Int) };
                    let col = *vm.entry(name.clone()).or_insert(col);
                    let _ = col;
                    ArithExpr::Variable(name)
                }
            }
            _ => {
                let op = *self.r.pick(&[AstOp::Add, AstOp::Sub, AstOp::Mul, AstOp::Div, AstOp::Mod]);
                ArithExpr::Binary {
                    op,
                    left: Box::new(self.gen_arith(tys, vm, depth - 1)),
                    right: Box::new(self.gen_arith(tys, vm, depth - 1)),
                }
            }
        }
    }

    pub fn gen_pred(&mut self, tys: &[Ty], depth: u32) -> Predicate {
        let w = tys.len();
        if w == 0 {
            return if self.r.chance(1, 2) { Predicate::True } else { Predicate::ColumnEqConst(0, 1) };
        }
        let k = self.r.below(if depth == 0 { 20 } else { 26 });
        match k {
            0..=4 => {
                let want = if self.r.chance(1, 5) { Ty::Float } else { Ty::Int };
                let c = self.col_of(tys, want);
                let v = if self.r.chance(1, 20) { 9007199254740993 } else { self.r.range(-1, 4) };
                match self.r.below(6) {
                    0 => Predicate::ColumnEqConst(c, v),
                    1 => Predicate::ColumnNeConst(c, v),
                    2 => Predicate::ColumnGtConst(c, v),
                    3 => Predicate::ColumnLtConst(c, v),
                    4 => Predicate::ColumnGeConst(c, v),
                    _ => Predicate::ColumnLeConst(c, v),
                }
            }
            5..=6 => {
                let c = self.col_of(tys, Ty::Str);
                let s = STRS[self.r.below(4) as usize].to_string();
                match self.r.below(6) {
                    0 => Predicate::ColumnEqStr(c, s),
                    1 => Predicate::ColumnNeStr(c, s),
                    2 => Predicate::ColumnLtStr(c, s),
                    3 => Predicate::ColumnGtStr(c, s),
                    4 => Predicate::ColumnLeStr(c, s),
                    _ => Predicate::ColumnGeStr(c, s),
                }
            }
            7 => {
                let c = self.col_of(tys, Ty::Bool);
                let b = self.r.chance(1, 2);
                if self.r.chance(1, 2) {
                    Predicate::ColumnEqBool(c, b)
                } else {
                    Predicate::ColumnNeBool(c, b)
                }
            }
            8..=9 => {
                let want = if self.r.chance(1, 3) { Ty::Int } else { Ty::Float };
                let c = self.col_of(tys, want);
                let v = self.r.range(-4, 8) as f64 / 4.0 + 0.0;
                match self.r.below(6) {
                    0 => Predicate::ColumnEqFloat(c, v),
                    1 => Predicate::ColumnNeFloat(c, v),
                    2 => Predicate::ColumnGtFloat(c, v),
                    3 => Predicate::ColumnLtFloat(c, v),
                    4 => Predicate::ColumnGeFloat(c, v),
                    _ => Predicate::ColumnLeFloat(c, v),
                }
            }
            10..=13 => {
                let a = self.any_col(tys);
                let ty = tys[a];
                let b = if self.r.chance(1, 15) { w + 1 } else { self.col_of(tys, ty) };
                match self.r.below(6) {
                    0 => Predicate::ColumnsEq(a, b),
                    1 => Predicate::ColumnsNe(a, b),
                    2 => Predicate::ColumnsLt(a, b),
                    3 => Predicate::ColumnsGt(a, b),
                    4 => Predicate::ColumnsLe(a, b),
                    _ => Predicate::ColumnsGe(a, b),
                }
            }
            14..=15 => {
                let mut vm = HashMap::new();
                let e = self.gen_arith(tys, &mut vm, 2);
                let want = if self.r.chance(1, 6) { Ty::Float } else { Ty::Int };
                let c = self.col_of(tys, want);
                Predicate::ColumnCompareArith(c, self.r.pick(&cmp_ops()).clone(), e, vm)
            }
            16..=17 => {
                let mut vm = HashMap::new();
                let e = self.gen_arith(tys, &mut vm, 2);
                Predicate::ArithCompareConst(e, self.r.pick(&cmp_ops()).clone(), self.r.range(-1, 4), vm)
            }
            18 => Predicate::True,
            19 => {
                if self.allow_void && self.r.chance(1, 2) {
                    Predicate::False
                } else {
                    Predicate::True
                }
            }
            20..=22 => Predicate::And(Box::new(self.gen_pred(tys, depth - 1)), Box::new(self.gen_pred(tys, depth - 1))),
            _ => Predicate::Or(Box::new(self.gen_pred(tys, depth - 1)), Box::new(self.gen_pred(tys, depth - 1))),
        }
    }

    fn const_expr(&mut self, ty: Ty) -> IRExpression {
        match ty {
            Ty::Int | Ty::Opaque => IRExpression::IntConstant(self.r.range(0, 3)),
            Ty::Str => IRExpression::StringConstant(STRS[self.r.below(4) as usize].to_string()),
            Ty::Bool => IRExpression::BoolConstant(self.r.chance(1, 2)),
            Ty::Float => IRExpression::FloatConstant(self.r.range(-4, 8) as f64 / 4.0 + 0.0),
        }
    }

    /// integer-valued expression over integer columns (never Null)
    fn int_expr(&mut self, tys: &[Ty], depth: u32) -> IRExpression {
        let ints = Self::cols_of(tys, Ty::Int);
        match self.r.below(if depth == 0 { 2 } else { 4 }) {
            0 => IRExpression::IntConstant(self.r.range(-2, 4)),
            1 if !ints.is_empty() => IRExpression::Column(ints[self.r.below(ints.len() as u64) as usize]),
            1 => IRExpression::IntConstant(1),
            _ => IRExpression::Arithmetic {
                op: *self.r.pick(&[ArithOp::Add, ArithOp::Sub, ArithOp::Mul]),
                left: Box::new(self.int_expr(tys, depth - 1)),
                right: Box::new(self.int_expr(tys, depth - 1)),
            },
        }
    }

    /// one computed column and its type
    fn gen_expr(&mut self, tys: &[Ty]) -> (IRExpression, Ty) {
        match self.r.below(10) {
            0..=1 if !tys.is_empty() => {
                let c = self.any_col(tys);
                (IRExpression::Column(c), tys[c])
            }
            2 => {
                // a missing column evaluates to Null
                (IRExpression::Column(tys.len() + 2), Ty::Opaque)
            }
            3 => {
                let ty = *self.r.pick(&[Ty::Int, Ty::Str, Ty::Bool, Ty::Float]);
                (self.const_expr(ty), ty)
            }
            4 => {
                // Mod only at the top (a zero divisor yields Null)
                let d = self.r.range(0, 3);
                let l = self.int_expr(tys, 1);
                (
                    IRExpression::Arithmetic { op: ArithOp::Mod, left: Box::new(l), right: Box::new(IRExpression::IntConstant(d)) },
                    if d == 0 { Ty::Opaque } else { Ty::Int },
                )
            }
            _ => (self.int_expr(tys, 2), Ty::Int),
        }
    }

    fn gen_keys(&mut self, lt: &[Ty], rt: &[Ty], max: u64) -> (Vec<usize>, Vec<usize>) {
        let mut lk = vec![];
        let mut rk = vec![];
        let n = self.r.below(max + 1);
        for _ in 0..n {
            if lt.is_empty() || rt.is_empty() {
                break;
            }
            let i = self.any_col(lt);
            if lt[i] == Ty::Opaque {
                continue;
            }
            let cands: Vec<usize> = Self::cols_of(rt, lt[i]).into_iter().filter(|j| self.allow_dup_keys || !rk.contains(j)).collect();
            if cands.is_empty() {
                continue;
            }
            let j = cands[self.r.below(cands.len() as u64) as usize];
            lk.push(i);
            rk.push(j);
        }
        (lk, rk)
    }

    /// Make `child` produce exactly the column types `target` (Compute constants + Map).
    fn coerce(&mut self, child: IRNode, tys: Vec<Ty>, target: &[Ty]) -> IRNode {
        if tys == target {
            return child;
        }
        let mut cur = child;
        let mut cur_tys = tys;
        let mut exprs = vec![];
        for ty in target {
            if Self::cols_of(&cur_tys, *ty).is_empty() {
                let e = self.const_expr(*ty);
                let n = self.names(1).remove(0);
                exprs.push((n, e));
                cur_tys.push(*ty);
            }
        }
        if !exprs.is_empty() {
            self.tally("Compute");
            cur = IRNode::Compute { input: Box::new(cur), expressions: exprs };
        }
        let proj: Vec<usize> = target
            .iter()
            .map(|ty| {
                let c = Self::cols_of(&cur_tys, *ty);
                c[self.r.below(c.len() as u64) as usize]
            })
            .collect();
        self.tally("Map");
        let sch = self.names(proj.len());
        IRNode::Map { input: Box::new(cur), projection: proj, output_schema: sch }
    }

    fn scan(&mut self) -> (IRNode, Vec<Ty>) {
        self.tally("Scan");
        let i = self.r.below(self.db.rels.len() as u64) as usize;
        let (name, tys, _) = &self.db.rels[i];
        let tys = tys.clone();
        let name = name.clone();
        let sch = self.names(tys.len());
        (IRNode::Scan { relation: name, schema: sch }, tys)
    }

    fn scan_of(&mut self, i: usize) -> (IRNode, Vec<Ty>) {
        self.tally("Scan");
        let (name, tys, _) = &self.db.rels[i];
        let tys = tys.clone();
        let name = name.clone();
        let sch = self.names(tys.len());
        (IRNode::Scan { relation: name, schema: sch }, tys)
    }

    /// A join; returns (node, output types, left width). `multi`: up to three key pairs in any
    /// order (ascending, descending, repeated right keys when allowed), inputs biased towards the
    /// wide all-Int relations so that non-key right columns remain behind the keys.
    fn make_join(&mut self, depth: u32, multi: bool) -> (IRNode, Vec<Ty>, usize) {
        let nrel = self.db.rels.len();
        let (l, lt) = if multi && self.r.chance(1, 2) {
            let i = *self.r.pick(&[0usize, 1, nrel - 2, nrel - 1]);
            self.scan_of(i)
        } else {
            self.gen_tree(depth)
        };
        let (r, rt) = if multi && self.r.chance(2, 3) {
            let i = *self.r.pick(&[nrel - 2, nrel - 1, nrel - 1, 2]);
            self.scan_of(i)
        } else {
            self.gen_tree(depth)
        };
        self.tally("Join");
        let (lk, rk) = self.gen_keys(&lt, &rt, if multi { 3 } else { 2 });
        if lk.len() >= 2 {
            self.tally(if rk.windows(2).all(|w| w[0] < w[1]) { "join_keys:multi-ascending" } else { "join_keys:multi-unsorted-or-repeated" });
        }
        let mut out = lt.clone();
        for (j, ty) in rt.iter().enumerate() {
            if lk.is_empty() || !rk.contains(&j) {
                out.push(*ty);
            }
        }
        let sch = self.names(out.len());
        let lw = lt.len();
        (IRNode::Join { left: Box::new(l), right: Box::new(r), left_keys: lk, right_keys: rk, output_schema: sch }, out, lw)
    }

    /// projection over a join output that mostly selects columns of the right (non-key) block
    fn join_projection(&mut self, w: usize, lw: usize) -> Vec<usize> {
        let n = self.r.range(1, 3) as usize;
        (0..n)
            .map(|_| {
                if w > lw && self.r.chance(2, 3) {
                    lw + self.r.below((w - lw) as u64) as usize
                } else {
                    self.r.below(w as u64) as usize
                }
            })
            .collect()
    }

    pub fn gen_tree(&mut self, depth: u32) -> (IRNode, Vec<Ty>) {
        if depth == 0 || self.r.chance(1, 7) {
            if self.r.chance(1, 40) {
                self.tally("HnswScan");
                let sch = self.names(2);
                return (
                    IRNode::HnswScan {
                        index_name: "idx".into(),
                        query: IRExpression::VectorLiteral(vec![1.0, 0.0]),
                        k: 3,
                        ef_search: None,
                        output_schema: sch,
                    },
                    vec![Ty::Int, Ty::Float],
                );
            }
            return self.scan();
        }
        let mut k = self.r.below(100);
        if self.no_combine && matches!(k, 34..=51 | 67..=82 | 95..=99) {
            k = *self.r.pick(&[5u64, 20, 55, 60, 85, 92]);
        }
        match k {
            10..=15 if !self.no_combine => {
                // Map / FlatMap directly over a (multi-key) join: the shape fuse_to_join_flatmap rewrites
                let (j, tys, lw) = self.make_join(depth - 1, true);
                let w = tys.len();
                if w == 0 {
                    return (j, tys);
                }
                let proj = self.join_projection(w, lw);
                let out: Vec<Ty> = proj.iter().map(|i| tys[*i]).collect();
                let sch = self.names(proj.len());
                if self.r.chance(1, 3) {
                    self.tally("FlatMap");
                    let fp = if self.r.chance(1, 2) { Some(self.gen_pred(&out, 1)) } else { None };
                    (IRNode::FlatMap { input: Box::new(j), projection: proj, filter_predicate: fp, output_schema: sch }, out)
                } else {
                    self.tally("Map");
                    (IRNode::Map { input: Box::new(j), projection: proj, output_schema: sch }, out)
                }
            }
            0..=15 => {
                let (c, tys) = self.gen_tree(depth - 1);
                self.tally("Map");
                let w = tys.len();
                let proj: Vec<usize> = if w == 0 {
                    vec![]
                } else if self.r.chance(1, 6) {
                    (0..w).collect()
                } else {
                    let lo = if self.r.chance(1, 10) { 0 } else { 1 };
                    let n = self.r.range(lo, 3) as usize;
                    (0..n).map(|_| self.r.below(w as u64) as usize).collect()
                };
                let out: Vec<Ty> = proj.iter().map(|i| tys[*i]).collect();
                let sch = self.names(proj.len());
                (IRNode::Map { input: Box::new(c), projection: proj, output_schema: sch }, out)
            }
            16..=33 => {
                let (c, tys) = self.gen_tree(depth - 1);
                self.tally("Filter");
                let p = self.gen_pred(&tys, 2);
                (IRNode::Filter { input: Box::new(c), predicate: p }, tys)
            }
            34..=51 => {
                let multi = self.r.chance(1, 3);
                let (j, out, _) = self.make_join(depth - 1, multi);
                (j, out)
            }
            52..=57 => {
                let (c, tys) = self.gen_tree(depth - 1);
                self.tally("Distinct");
                (IRNode::Distinct { input: Box::new(c) }, tys)
            }
            58..=66 => {
                self.tally("Union");
                if self.allow_void && self.r.chance(1, 12) {
                    return (IRNode::Union { inputs: vec![] }, vec![]);
                }
                let (first, tys) = self.gen_tree(depth - 1);
                let n = self.r.range(0, 2);
                let mut inputs = vec![first];
                for _ in 0..n {
                    let (c, ct) = self.gen_tree(depth - 1);
                    inputs.push(self.coerce(c, ct, &tys));
                }
                (IRNode::Union { inputs }, tys)
            }
            67..=75 => {
                let (c, tys) = self.gen_tree(depth - 1);
                self.tally("Aggregate");
                let w = tys.len();
                let ngb = if w == 0 { 0 } else { self.r.range(0, 2) as usize };
                let gb: Vec<usize> = (0..ngb).map(|_| self.r.below(w as u64) as usize).collect();
                let mut out: Vec<Ty> = gb.iter().map(|i| tys[*i]).collect();
                let na = self.r.range(1, 2);
                let mut aggs = vec![];
                for _ in 0..na {
                    let col = if w == 0 { 0 } else { self.r.below(w as u64) as usize };
                    let cty = if w == 0 { Ty::Opaque } else { tys[col] };
                    match self.r.below(5) {
                        0 => {
                            aggs.push((AggregateFunction::Count, col));
                            out.push(Ty::Int);
                        }
                        1 => {
                            aggs.push((AggregateFunction::CountDistinct, col));
                            out.push(Ty::Int);
                        }
                        2 => {
                            aggs.push((AggregateFunction::Sum, col));
                            out.push(Ty::Int);
                        }
                        3 => {
                            aggs.push((AggregateFunction::Min, col));
                            out.push(if w == 0 { Ty::Opaque } else { cty });
                        }
                        _ => {
                            aggs.push((AggregateFunction::Max, col));
                            out.push(if w == 0 { Ty::Opaque } else { cty });
                        }
                    }
                }
                let sch = self.names(out.len());
                (IRNode::Aggregate { input: Box::new(c), group_by: gb, aggregations: aggs, output_schema: sch }, out)
            }
            76..=82 => {
                let (l, lt) = self.gen_tree(depth - 1);
                let (r, rt) = self.gen_tree(depth - 1);
                self.tally("Antijoin");
                let (lk, rk) = self.gen_keys(&lt, &rt, 2);
                let sch = self.names(lt.len());
                (IRNode::Antijoin { left: Box::new(l), right: Box::new(r), left_keys: lk, right_keys: rk, output_schema: sch }, lt)
            }
            83..=89 => {
                let (c, tys) = self.gen_tree(depth - 1);
                self.tally("Compute");
                let mut cur = tys.clone();
                let n = self.r.range(1, 2);
                let mut exprs = vec![];
                for _ in 0..n {
                    let (e, ty) = self.gen_expr(&cur);
                    let name = self.names(1).remove(0);
                    exprs.push((name, e));
                    cur.push(ty);
                }
                (IRNode::Compute { input: Box::new(c), expressions: exprs }, cur)
            }
            90..=94 => {
                let (c, tys) = self.gen_tree(depth - 1);
                self.tally("FlatMap");
                let w = tys.len();
                let n = if w == 0 { 0 } else { self.r.range(1, 3) as usize };
                let proj: Vec<usize> = (0..n).map(|_| self.r.below(w as u64) as usize).collect();
                let out: Vec<Ty> = proj.iter().map(|i| tys[*i]).collect();
                let fp = if self.r.chance(2, 3) { Some(self.gen_pred(&out, 1)) } else { None };
                let sch = self.names(n);
                (IRNode::FlatMap { input: Box::new(c), projection: proj, filter_predicate: fp, output_schema: sch }, out)
            }
            _ => {
                let (l, lt) = self.gen_tree(depth - 1);
                let (r, rt) = self.gen_tree(depth - 1);
                self.tally("JoinFlatMap");
                let (lk, rk) = self.gen_keys(&lt, &rt, 2);
                let mut all = lt.clone();
                all.extend(rt.iter().cloned());
                let w = all.len();
                let n = if w == 0 { 0 } else { self.r.range(1, 3) as usize };
                let proj: Vec<usize> = (0..n).map(|_| self.r.below(w as u64) as usize).collect();
                let out: Vec<Ty> = proj.iter().map(|i| all[*i]).collect();
                let fp = if self.r.chance(1, 2) { Some(self.gen_pred(&out, 1)) } else { None };
                let sch = self.names(n);
                (
                    IRNode::JoinFlatMap {
                        left: Box::new(l),
                        right: Box::new(r),
                        left_keys: lk,
                        right_keys: rk,
                        projection: proj,
                        filter_predicate: fp,
                        output_schema: sch,
                    },
                    out,
                )
            }
        }
    }
}

/// Number of nodes / does the tree contain a given kind
pub fn node_count(t: &IRNode) -> usize {
    1 + children(t).iter().map(|c| node_count(c)).sum::<usize>()
}
pub fn children(t: &IRNode) -> Vec<&IRNode> {
    match t {
        IRNode::Scan { .. } | IRNode::HnswScan { .. } => vec![],
        IRNode::Map { input, .. }
        | IRNode::Filter { input, .. }
        | IRNode::Distinct { input }
        | IRNode::Aggregate { input, .. }
        | IRNode::Compute { input, .. }
        | IRNode::FlatMap { input, .. } => vec![input],
        IRNode::Join { left, right, .. } | IRNode::Antijoin { left, right, .. } | IRNode::JoinFlatMap { left, right, .. } => vec![left, right],
        IRNode::Union { inputs } => inputs.iter().collect(),
    }
}
pub fn kind_name(t: &IRNode) -> &'static str {
    match t {
        IRNode::Scan { .. } => "Scan",
        IRNode::HnswScan { .. } => "HnswScan",
        IRNode::Map { .. } => "Map",
        IRNode::Filter { .. } => "Filter",
        IRNode::Distinct { .. } => "Distinct",
        IRNode::Aggregate { .. } => "Aggregate",
        IRNode::Compute { .. } => "Compute",
        IRNode::FlatMap { .. } => "FlatMap",
        IRNode::Join { .. } => "Join",
        IRNode::Antijoin { .. } => "Antijoin",
        IRNode::JoinFlatMap { .. } => "JoinFlatMap",
        IRNode::Union { .. } => "Union",
    }
}
pub fn has_kind(t: &IRNode, k: &str) -> bool {
    kind_name(t) == k || children(t).iter().any(|c| has_kind(c, k))
}

// ------------------------------------------------------------------ Coq printers
/// Interns relation and column names as N ids (relation `rK` -> K when it has that form).
#[derive(Default)]
pub struct Names {
    pub map: HashMap<String, u64>,
}
impl Names {
    pub fn id(&mut self, s: &str) -> u64 {
        let n = self.map.len() as u64 + 1000;
        *self.map.entry(s.to_string()).or_insert(n)
    }
}

pub fn coq_nats(xs: &[usize]) -> String {
    let v: Vec<String> = xs.iter().map(|x| coq_nat(*x)).collect();
    coq_list(&v)
}
pub fn coq_schema(nm: &mut Names, s: &[String]) -> String {
    let v: Vec<String> = s.iter().map(|x| coq_n(nm.id(x) as u128)).collect();
    coq_list(&v)
}
fn coq_cmp(op: &ComparisonOp) -> &'static str {
    match op {
        ComparisonOp::Equal => "OEq",
        ComparisonOp::NotEqual => "ONe",
        ComparisonOp::LessThan => "OLt",
        ComparisonOp::LessOrEqual => "OLe",
        ComparisonOp::GreaterThan => "OGt",
        ComparisonOp::GreaterOrEqual => "OGe",
    }
}
/// None when the expression uses a construct outside the model (FloatConstant)
pub fn coq_arith(nm: &mut Names, e: &ArithExpr) -> Option<String> {
    Some(match e {
        ArithExpr::Constant(z) => format!("(AConst {})", coq_z(*z as i128)),
        ArithExpr::Variable(x) => format!("(AVar {})", coq_n(nm.id(x) as u128)),
        ArithExpr::FloatConstant(_) => return None,
        ArithExpr::Binary { op, left, right } => {
            let o = match op {
                AstOp::Add => "AAdd",
                AstOp::Sub => "ASub",
                AstOp::Mul => "AMul",
                AstOp::Div => "ADiv",
                AstOp::Mod => "AMod",
            };
            format!("(ABin {} {} {})", o, coq_arith(nm, left)?, coq_arith(nm, right)?)
        }
    })
}
fn coq_varmap(nm: &mut Names, vm: &HashMap<String, usize>) -> String {
    let mut v: Vec<(&String, &usize)> = vm.iter().collect();
    v.sort();
    let v: Vec<String> = v.iter().map(|(k, c)| format!("({}, {})", coq_n(nm.id(k) as u128), coq_nat(**c))).collect();
    coq_list(&v)
}
pub fn coq_pred(nm: &mut Names, p: &Predicate) -> Option<String> {
    use Predicate::*;
    let c = |op: &str, col: &usize, z: &i64| format!("(PConst {} {} {})", op, coq_nat(*col), coq_z(*z as i128));
    let s = |op: &str, col: &usize, x: &String| format!("(PStr {} {} {})", op, coq_nat(*col), coq_str(x));
    let f = |op: &str, col: &usize, x: &f64| format!("(PFloat {} {} {})", op, coq_nat(*col), coq_n(x.to_bits() as u128));
    let cc = |op: &str, a: &usize, b: &usize| format!("(PCols {} {} {})", op, coq_nat(*a), coq_nat(*b));
    Some(match p {
        ColumnEqConst(a, b) => c("OEq", a, b),
        ColumnNeConst(a, b) => c("ONe", a, b),
        ColumnGtConst(a, b) => c("OGt", a, b),
        ColumnLtConst(a, b) => c("OLt", a, b),
        ColumnGeConst(a, b) => c("OGe", a, b),
        ColumnLeConst(a, b) => c("OLe", a, b),
        ColumnEqStr(a, b) => s("OEq", a, b),
        ColumnNeStr(a, b) => s("ONe", a, b),
        ColumnLtStr(a, b) => s("OLt", a, b),
        ColumnGtStr(a, b) => s("OGt", a, b),
        ColumnLeStr(a, b) => s("OLe", a, b),
        ColumnGeStr(a, b) => s("OGe", a, b),
        ColumnEqBool(a, b) => format!("(PBool true {} {})", coq_nat(*a), coq_bool(*b)),
        ColumnNeBool(a, b) => format!("(PBool false {} {})", coq_nat(*a), coq_bool(*b)),
        ColumnEqFloat(a, b) => f("OEq", a, b),
        ColumnNeFloat(a, b) => f("ONe", a, b),
        ColumnGtFloat(a, b) => f("OGt", a, b),
        ColumnLtFloat(a, b) => f("OLt", a, b),
        ColumnGeFloat(a, b) => f("OGe", a, b),
        ColumnLeFloat(a, b) => f("OLe", a, b),
        ColumnsEq(a, b) => cc("OEq", a, b),
        ColumnsNe(a, b) => cc("ONe", a, b),
        ColumnsLt(a, b) => cc("OLt", a, b),
        ColumnsGt(a, b) => cc("OGt", a, b),
        ColumnsLe(a, b) => cc("OLe", a, b),
        ColumnsGe(a, b) => cc("OGe", a, b),
        ColumnCompareArith(col, op, e, vm) => {
            format!("(PColArith {} {} {} {})", coq_nat(*col), coq_cmp(op), coq_arith(nm, e)?, coq_varmap(nm, vm))
        }
        ArithCompareConst(e, op, z, vm) => {
            format!("(PArithConst {} {} {} {})", coq_arith(nm, e)?, coq_cmp(op), coq_z(*z as i128), coq_varmap(nm, vm))
        }
        And(a, b) => format!("(PAnd {} {})", coq_pred(nm, a)?, coq_pred(nm, b)?),
        Or(a, b) => format!("(POr {} {})", coq_pred(nm, a)?, coq_pred(nm, b)?),
        True => "PTrue".into(),
        False => "PFalse".into(),
    })
}
pub fn coq_expr(e: &IRExpression) -> Option<String> {
    Some(match e {
        IRExpression::Column(i) => format!("(ECol {})", coq_nat(*i)),
        IRExpression::IntConstant(z) => format!("(EInt {})", coq_z(*z as i128)),
        IRExpression::FloatConstant(f) => format!("(EFloat {})", coq_n(f.to_bits() as u128)),
        IRExpression::StringConstant(s) => format!("(EStr {})", coq_str(s)),
        IRExpression::BoolConstant(b) => format!("(EBool {})", coq_bool(*b)),
        IRExpression::VectorLiteral(_) | IRExpression::FunctionCall(..) => return None,
        IRExpression::Arithmetic { op, left, right } => {
            let o = match op {
                ArithOp::Add => "EAdd",
                ArithOp::Sub => "ESub",
                ArithOp::Mul => "EMul",
                ArithOp::Mod => "EMod",
                ArithOp::Div => return None,
            };
            format!("(EArith {} {} {})", o, coq_expr(left)?, coq_expr(right)?)
        }
    })
}
fn coq_opred(nm: &mut Names, p: &Option<Predicate>) -> Option<String> {
    Some(match p {
        Some(p) => format!("(Some {})", coq_pred(nm, p)?),
        None => "None".into(),
    })
}
/// Relation name -> N: `rK` -> K, anything else interned.
pub fn rel_id(nm: &mut Names, r: &str) -> u64 {
    if let Some(k) = r.strip_prefix('r').and_then(|x| x.parse::<u64>().ok()) {
        k
    } else {
        nm.id(&format!("rel:{}", r))
    }
}
/// None when the tree uses a construct outside the model (Avg / ranking aggregates, Div,
/// FunctionCall, VectorLiteral in Compute, ArithExpr::FloatConstant).
pub fn coq_ir(nm: &mut Names, t: &IRNode) -> Option<String> {
    Some(match t {
        IRNode::Scan { relation, schema } => format!("(Scan {} {})", coq_n(rel_id(nm, relation) as u128), coq_schema(nm, schema)),
        IRNode::Map { input, projection, output_schema } => {
            format!("(Map {} {} {})", coq_ir(nm, input)?, coq_nats(projection), coq_schema(nm, output_schema))
        }
        IRNode::Filter { input, predicate } => format!("(Filter {} {})", coq_ir(nm, input)?, coq_pred(nm, predicate)?),
        IRNode::Join { left, right, left_keys, right_keys, output_schema } => format!(
            "(Join {} {} {} {} {})",
            coq_ir(nm, left)?,
            coq_ir(nm, right)?,
            coq_nats(left_keys),
            coq_nats(right_keys),
            coq_schema(nm, output_schema)
        ),
        IRNode::Distinct { input } => format!("(Distinct {})", coq_ir(nm, input)?),
        IRNode::Union { inputs } => {
            let mut v = vec![];
            for i in inputs {
                v.push(coq_ir(nm, i)?);
            }
            format!("(Union {})", coq_list(&v))
        }
        IRNode::Aggregate { input, group_by, aggregations, output_schema } => {
            let mut v = vec![];
            for (f, c) in aggregations {
                let n = match f {
                    AggregateFunction::Count => "AgCount",
                    AggregateFunction::CountDistinct => "AgCountDistinct",
                    AggregateFunction::Sum => "AgSum",
                    AggregateFunction::Min => "AgMin",
                    AggregateFunction::Max => "AgMax",
                    _ => return None,
                };
                v.push(format!("({}, {})", n, coq_nat(*c)));
            }
            format!("(Aggregate {} {} {} {})", coq_ir(nm, input)?, coq_nats(group_by), coq_list(&v), coq_schema(nm, output_schema))
        }
        IRNode::Antijoin { left, right, left_keys, right_keys, output_schema } => format!(
            "(Antijoin {} {} {} {} {})",
            coq_ir(nm, left)?,
            coq_ir(nm, right)?,
            coq_nats(left_keys),
            coq_nats(right_keys),
            coq_schema(nm, output_schema)
        ),
        IRNode::Compute { input, expressions } => {
            let mut v = vec![];
            for (n, e) in expressions {
                v.push(format!("({}, {})", coq_n(nm.id(n) as u128), coq_expr(e)?));
            }
            format!("(Compute {} {})", coq_ir(nm, input)?, coq_list(&v))
        }
        IRNode::HnswScan { output_schema, .. } => format!("(HnswScan {})", coq_schema(nm, output_schema)),
        IRNode::FlatMap { input, projection, filter_predicate, output_schema } => format!(
            "(FlatMap {} {} {} {})",
            coq_ir(nm, input)?,
            coq_nats(projection),
            coq_opred(nm, filter_predicate)?,
            coq_schema(nm, output_schema)
        ),
        IRNode::JoinFlatMap { left, right, left_keys, right_keys, projection, filter_predicate, output_schema } => format!(
            "(JoinFlatMap {} {} {} {} {} {} {})",
            coq_ir(nm, left)?,
            coq_ir(nm, right)?,
            coq_nats(left_keys),
            coq_nats(right_keys),
            coq_nats(projection),
            coq_opred(nm, filter_predicate)?,
            coq_schema(nm, output_schema)
        ),
    })
}

pub fn coq_db(nm: &mut Names, rels: &[(String, Vec<Tuple>)]) -> String {
    let v: Vec<String> = rels.iter().map(|(r, ts)| format!("({}, {})", coq_n(rel_id(nm, r) as u128), coq_tuples(ts))).collect();
    coq_list(&v)
}
pub fn coq_result(r: &Result<Vec<Tuple>, String>) -> String {
    match r {
        Ok(ts) => format!("(Some {})", coq_tuples(ts)),
        Err(_) => "None".into(),
    }
}

/// Run the real DD pipeline on `ir` with the given base relations (Counting semiring unless told).
pub fn exec_ir(ir: &IRNode, rels: &[(String, Vec<Tuple>)], semiring: Option<inputlayer::SemiringType>) -> Result<Vec<Tuple>, String> {
    let mut cg = inputlayer::CodeGenerator::new();
    if let Some(s) = semiring {
        cg.set_semiring_type(s);
    }
    for (r, ts) in rels {
        cg.add_input(r.clone(), ts.clone());
    }
    let ir = ir.clone();
    match catch(std::panic::AssertUnwindSafe(move || cg.execute(&ir))) {
        Ok(r) => r,
        Err(p) => Err(format!("panic: {}", p)),
    }
}

pub fn db_rels(db: &Db) -> Vec<(String, Vec<Tuple>)> {
    db.rels.iter().map(|(n, _, ts)| (n.clone(), ts.clone())).collect()
}

pub fn sorted(mut ts: Vec<Tuple>) -> Vec<Tuple> {
    ts.sort();
    ts
}
