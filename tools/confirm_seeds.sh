#!/bin/sh
# usage: confirm_seeds.sh OUTDIR SEEDDIR...   (each SEEDDIR has patch.diff + demo_test.rs)
# For each seed: demo passes on HEAD, fails with the patch. Then all patches together: full suite passes.
OUT=$1; shift
WT=/tmp/confirm-wt
export CARGO_TARGET_DIR=/tmp/confirm-target CARGO_NET_OFFLINE=true CARGO_PROFILE_DEV_DEBUG=0 CARGO_PROFILE_TEST_DEBUG=0
mkdir -p $OUT
[ -d $WT ] || git -C /repo worktree add -f $WT HEAD -q
git -C $WT checkout -q -- . ; git -C $WT clean -fdq; git -C $WT checkout -q --detach $(git -C /repo rev-parse HEAD)
APPLIED=""
for S in "$@"; do
  id=$(basename $S); t=seed_$(echo $id | tr 'A-Z-' 'a-z_')
  cp $S/demo_test.rs $WT/tests/$t.rs
  ( cd $WT && timeout 3000 cargo test --offline --test $t > $OUT/$id.without.log 2>&1 ); r0=$?
  if git -C $WT apply --check $S/patch.diff 2>/dev/null; then
    git -C $WT apply $S/patch.diff
    ( cd $WT && timeout 3000 cargo test --offline --test $t > $OUT/$id.with.log 2>&1 ); r1=$?
    APPLIED="$APPLIED $id"
  else
    r1="patch-conflict"
  fi
  echo "$id demo_without_patch_exit=$r0 demo_with_patch_exit=$r1" | tee -a $OUT/summary.txt
  rm -f $WT/tests/$t.rs
done
( cd $WT && timeout 7000 cargo nextest run --workspace --no-fail-fast --tool-config-file pb:/w/lib/nextest.toml --profile pb --test-threads 8 --offline > $OUT/suite.log 2>&1 ); rs=$?
echo "suite_with_patches[$APPLIED ] exit=$rs $(grep -E 'Summary' $OUT/suite.log | tail -1)" | tee -a $OUT/summary.txt
grep -E "^\s+(FAIL|TIMEOUT)" $OUT/suite.log | awk '{print $NF}' | sort -u | head -20 >> $OUT/summary.txt
git -C $WT checkout -q -- .
