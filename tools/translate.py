#!/usr/bin/env python3
"""Translator: Rust decision code in /repo  ->  coq/Gen/*.v   (re-run by every check).

It is a reader for the small Rust subset the decision tables are written in
(`match` over enum variants with payload-independent patterns, `if *role == Role::X`,
`Ok(())` / `Err(..)`, calls to sibling functions, integer literals, boolean `matches!`).
Anything else makes the translator FAIL (exit 1) rather than guess: a generated table is a
faithful model only if the decision does not look inside payloads.

usage: translate.py auth | rank | guard | schema | all
"""
import re, sys, os

REPO = os.environ.get('VERIF_REPO', '/repo')
ROOT = os.path.dirname(os.path.dirname(os.path.abspath(__file__)))
GEN = os.path.join(ROOT, 'coq', 'Gen')


class TranslateError(Exception):
    pass


# ------------------------------------------------------------------ lexing
TOK = re.compile(r'''
    (?P<ws>\s+)
  | (?P<lc>//[^\n]*)
  | (?P<bc>/\*.*?\*/)
  | (?P<str>"(?:\\.|[^"\\])*")
  | (?P<chr>'(?:\\.|[^'\\])')
  | (?P<num>\d[\d_]*(?:\.\d+)?(?:[iuf]\d+|usize)?)
  | (?P<id>[A-Za-z_][A-Za-z0-9_]*(?:::[A-Za-z_][A-Za-z0-9_]*)*!?)
  | (?P<op>=>|==|!=|<=|>=|&&|\|\||\.\.=|\.\.|->|::|[{}()\[\],;|&*<>=!.:\-+/%@#?'])
''', re.X | re.S)


def lex(src):
    out, i = [], 0
    while i < len(src):
        m = TOK.match(src, i)
        if not m:
            raise TranslateError(f'cannot lex at {src[i:i+40]!r}')
        i = m.end()
        k = m.lastgroup
        if k in ('ws', 'lc', 'bc'):
            continue
        out.append((k, m.group(k)))
    return out


def read(path):
    return open(os.path.join(REPO, path)).read()


def enum_variants(src, name):
    """[(variant, payload_kind)] for `pub enum name { ... }`; payload_kind in '', 'tuple', 'struct'."""
    m = re.search(r'pub enum ' + name + r'\s*\{', src)
    if not m:
        raise TranslateError(f'enum {name} not found')
    toks = lex(src[m.end() - 1:])
    # toks[0] == '{'
    depth, i, vs = 0, 0, []
    expect_variant = False
    while i < len(toks):
        k, t = toks[i]
        if t == '{' or t == '(' or t == '[':
            depth += 1
            if depth == 1:
                expect_variant = True
        elif t == '}' or t == ')' or t == ']':
            depth -= 1
            if depth == 0:
                break
        elif depth == 1:
            if t == '#':  # attribute: skip [...]
                j = i + 1
                d = 0
                while True:
                    if toks[j][1] == '[':
                        d += 1
                    if toks[j][1] == ']':
                        d -= 1
                        if d == 0:
                            break
                    j += 1
                i = j
            elif t == ',':
                expect_variant = True
            elif k == 'id' and expect_variant:
                nxt = toks[i + 1][1]
                vs.append((t, 'tuple' if nxt == '(' else 'struct' if nxt == '{' else ''))
                expect_variant = False
        i += 1
    return vs


def fn_tokens(src, name):
    m = re.search(r'\bfn ' + name + r'\s*(<[^>]*>)?\s*\(', src)
    if not m:
        raise TranslateError(f'fn {name} not found')
    toks = lex(src[m.start():])
    # params
    i = 0
    while toks[i][1] != '(':
        i += 1
    i += 1
    params, depth = [], 1
    cur = []
    while depth > 0:
        t = toks[i][1]
        if t in '([{<' and t != '<':
            depth += 1
        if t in ')]}':
            depth -= 1
            if depth == 0:
                break
        if t == ',' and depth == 1:
            params.append(cur); cur = []
        else:
            cur.append(t)
        i += 1
    if cur:
        params.append(cur)
    pnames = [p[0] if p[0] not in ('&', 'mut') else p[1] for p in params if p and p[0] != '&' or (p and len(p) > 1)]
    pnames = []
    for p in params:
        q = [x for x in p if x not in ('&', 'mut')]
        if q and q[0] == 'self':
            pnames.append('self')
        elif q:
            pnames.append(q[0])
    while toks[i][1] != '{':
        i += 1
    body, j = take_group(toks, i)
    return pnames, body


def take_group(toks, i):
    """toks[i] is an opening bracket; returns (inner tokens, index after the closing bracket)."""
    opener = toks[i][1]
    closer = {'{': '}', '(': ')', '[': ']'}[opener]
    depth, j = 0, i
    while True:
        t = toks[j][1]
        if t in '{([':
            depth += 1
        elif t in '})]':
            depth -= 1
            if depth == 0:
                return toks[i + 1:j], j + 1
        j += 1


# ------------------------------------------------------------------ evaluator
class Ev:
    """Evaluates a function of the subset on symbolic enum values.
    A value is ('Enum', 'Variant', inner) where inner is another value or None, or a python int/bool."""

    def __init__(self, src, enums):
        self.src = src
        self.enums = enums   # name -> [variants]
        self.fn_cache = {}

    def fn(self, name):
        if name not in self.fn_cache:
            self.fn_cache[name] = fn_tokens(self.src, name)
        return self.fn_cache[name]

    def call(self, name, args):
        pn, body = self.fn(name)
        pn = [p for p in pn if p != 'self'] if len(pn) != len(args) else pn
        if len(pn) != len(args):
            raise TranslateError(f'arity mismatch calling {name}')
        env = dict(zip(pn, args))
        v, _ = self.block(body, env)
        return v

    def block(self, toks, env):
        """value of a block body: a single trailing expression (let-statements rejected)."""
        if toks and toks[0][1] == 'let':
            raise TranslateError('let in decision code is outside the translated subset')
        v, i = self.expr(toks, 0, env)
        if i < len(toks) and not all(t[1] in (';', ',') for t in toks[i:]):
            raise TranslateError('trailing tokens in block: ' + ' '.join(t[1] for t in toks[i:i + 8]))
        return v, i

    def atom_value(self, toks, i, env):
        k, t = toks[i]
        if t == '*' or t == '&':
            return self.atom_value(toks, i + 1, env)
        if k == 'num':
            return int(re.match(r'\d+', t.replace('_', '')).group(0)), i + 1
        if t in ('true', 'false'):
            return t == 'true', i + 1
        if k == 'id':
            if t in env:
                return env[t], i + 1
            if '::' in t:
                en, var = t.rsplit('::', 1)
                en = en.split('::')[-1]
                j = i + 1
                if j < len(toks) and toks[j][1] in '({':
                    _, j = take_group(toks, j)
                return ('E', en, var, None), j
        raise TranslateError(f'unsupported atom {t!r}')

    def expr(self, toks, i, env):
        k, t = toks[i]
        if t == '{':
            inner, j = take_group(toks, i)
            v, _ = self.block(inner, env)
            return v, j
        if t == 'Ok':
            _, j = take_group(toks, i + 1)
            return True, j
        if t == 'Err':
            _, j = take_group(toks, i + 1)
            return False, j
        if t == 'if':
            j = i + 1
            cond = []
            while toks[j][1] != '{':
                cond.append(toks[j]); j += 1
            c = self.cond(cond, env)
            a_toks, j = take_group(toks, j)
            if toks[j][1] != 'else':
                raise TranslateError('if without else')
            j += 1
            if toks[j][1] == 'if':
                b, j2 = self.expr(toks, j, env)
            else:
                b_toks, j2 = take_group(toks, j)
                b = None
            if c:
                v, _ = self.block(a_toks, env)
                return v, j2
            if b is None:
                b, _ = self.block(b_toks, env)
            return b, j2
        if t == 'match':
            j = i + 1
            scrut = []
            while toks[j][1] != '{':
                scrut.append(toks[j]); j += 1
            sv = self.scrutinee(scrut, env)
            arms, j = take_group(toks, j)
            return self.match(sv, arms, env), j
        if t == 'matches!':
            inner, j = take_group(toks, i + 1)
            # matches!(x, P1 | P2)
            c = 0
            while inner[c][1] != ',':
                c += 1
            sv = self.scrutinee(inner[:c], env)
            ok = any(self.pat_match(p, sv, {}) for p in self.split_alts(inner[c + 1:]))
            return ok, j
        if k == 'id' and i + 1 < len(toks) and toks[i + 1][1] == '(' and '::' not in t and t not in env:
            inner, j = take_group(toks, i + 1)
            args, cur, depth = [], [], 0
            for tk in inner:
                if tk[1] in '([{':
                    depth += 1
                if tk[1] in ')]}':
                    depth -= 1
                if tk[1] == ',' and depth == 0:
                    args.append(cur); cur = []
                else:
                    cur.append(tk)
            if cur:
                args.append(cur)
            vals = [self.scrutinee(a, env) for a in args]
            return self.call(t, vals), j
        return self.atom_value(toks, i, env)

    def scrutinee(self, toks, env):
        toks = [t for t in toks if t[1] not in ('*', '&')]
        if len(toks) == 1 and toks[0][1] in env:
            return env[toks[0][1]]
        if len(toks) == 1:
            v, _ = self.atom_value(toks, 0, env)
            return v
        if toks[0][1] == '(':  # tuple scrutinee
            inner, _ = take_group(toks, 0)
            parts, cur = [], []
            for tk in inner:
                if tk[1] == ',':
                    parts.append(cur); cur = []
                else:
                    cur.append(tk)
            if cur:
                parts.append(cur)
            return ('T', [self.scrutinee(p, env) for p in parts])
        raise TranslateError('unsupported scrutinee ' + ' '.join(t[1] for t in toks))

    def cond(self, toks, env):
        ts = [t for t in toks]
        for op in ('==', '!='):
            idx = [n for n, t in enumerate(ts) if t[1] == op]
            if idx:
                a = self.scrutinee(ts[:idx[0]], env)
                b = self.scrutinee(ts[idx[0] + 1:], env)
                eq = a[:3] == b[:3] if isinstance(a, tuple) and isinstance(b, tuple) else a == b
                return eq if op == '==' else not eq
        raise TranslateError('unsupported condition ' + ' '.join(t[1] for t in ts))

    def split_alts(self, toks):
        alts, cur, depth = [], [], 0
        for tk in toks:
            if tk[1] in '([{':
                depth += 1
            if tk[1] in ')]}':
                depth -= 1
            if tk[1] == '|' and depth == 0:
                alts.append(cur); cur = []
            else:
                cur.append(tk)
        if cur:
            alts.append(cur)
        return alts

    def pat_match(self, pat, val, binds):
        """pattern tokens vs value; returns bool; payload patterns must be `_`, `..`, or a binding."""
        pat = [t for t in pat if t[1] not in ('&', 'ref')]
        if len(pat) == 1 and pat[0][1] == '_':
            return True
        if pat[0][1] == '(' and isinstance(val, tuple) and val[0] == 'T':
            inner, _ = take_group(pat, 0)
            parts, cur, depth = [], [], 0
            for tk in inner:
                if tk[1] in '([{':
                    depth += 1
                if tk[1] in ')]}':
                    depth -= 1
                if tk[1] == ',' and depth == 0:
                    parts.append(cur); cur = []
                else:
                    cur.append(tk)
            if cur:
                parts.append(cur)
            if len(parts) != len(val[1]):
                raise TranslateError('tuple pattern arity')
            return all(self.pat_match(p, v, binds) for p, v in zip(parts, val[1]))
        k, t = pat[0]
        if k == 'id' and '::' in t:
            en, var = t.rsplit('::', 1)
            en = en.split('::')[-1]
            if en == 'Self':
                en = val[1]
            if not (isinstance(val, tuple) and val[0] == 'E'):
                raise TranslateError('enum pattern against non-enum')
            if len(pat) > 1:
                if pat[1][1] not in '({':
                    raise TranslateError('unexpected pattern tail')
                inner, end = take_group(pat, 1)
                if end != len(pat):
                    raise TranslateError('pattern guard or tail not supported: ' + ' '.join(x[1] for x in pat))
                toks_in = [x[1] for x in inner]
                simple = all(x in ('_', '..', ',') for x in toks_in)
                if not simple:
                    # a single binding  Variant(name)  is allowed; it binds the inner value
                    if len(inner) == 1 and inner[0][0] == 'id' and '::' not in inner[0][1]:
                        if var == val[2] and en == val[1]:
                            binds[inner[0][1]] = val[3]
                    else:
                        raise TranslateError('pattern inspects a payload: ' + ' '.join(x[1] for x in pat))
            return en == val[1] and var == val[2]
        if k == 'id' and len(pat) == 1:     # catch-all binding
            binds[t] = val
            return True
        raise TranslateError('unsupported pattern ' + ' '.join(x[1] for x in pat))

    def match(self, sv, arms, env):
        # split arms:  pattern => expr [,]
        i = 0
        while i < len(arms):
            j = i
            depth = 0
            while not (arms[j][1] == '=>' and depth == 0):
                if arms[j][1] in '([{':
                    depth += 1
                if arms[j][1] in ')]}':
                    depth -= 1
                j += 1
            pat = arms[i:j]
            if any(t[1] == 'if' for t in pat):
                raise TranslateError('match guard not supported')
            # body: either a group/if/match expression or tokens up to the next top-level comma
            k = j + 1
            depth = 0
            end = k
            while end < len(arms):
                t = arms[end][1]
                if t in '([{':
                    depth += 1
                if t in ')]}':
                    depth -= 1
                if t == ',' and depth == 0:
                    break
                if depth == 0 and t == '}' and arms[k][1] in ('{', 'match', 'if'):
                    # block-like arm body may be followed directly by the next pattern
                    nxt = arms[end + 1][1] if end + 1 < len(arms) else ','
                    if nxt != 'else':
                        end += 1
                        break
                end += 1
            body = arms[k:end]
            for alt in self.split_alts(pat):
                b = {}
                if self.pat_match(alt, sv, b):
                    env2 = dict(env); env2.update(b)
                    v, used = self.expr(body, 0, env2)
                    if used != len(body):
                        raise TranslateError('arm body not fully consumed: ' + ' '.join(t[1] for t in body[used:used + 6]))
                    return v
            i = end + 1 if end < len(arms) and arms[end][1] == ',' else end
        raise TranslateError('non-exhaustive match in source?')


def coq_header(what, srcs):
    return f'(* GENERATED by tools/translate.py from {", ".join(srcs)} — do not edit; regenerated on every check run. *)\n' \
           f'(* {what} *)\nFrom Coq Require Import List Bool NArith.\nImport ListNotations.\n\n'


def write(name, text):
    os.makedirs(GEN, exist_ok=True)
    p = os.path.join(GEN, name)
    old = open(p).read() if os.path.exists(p) else None
    if old != text:
        open(p, 'w').write(text)


# ------------------------------------------------------------------ auth tables (C27, C28, C29)
def gen_auth():
    auth = read('src/auth.rs')
    st = enum_variants(read('src/statement/mod.rs'), 'Statement')
    mc = enum_variants(read('src/statement/meta.rs'), 'MetaCommand')
    kinds = [('S' + v, ('E', 'Statement', v, None)) for v, _ in st if v != 'Meta'] + \
            [('M' + v, ('E', 'Statement', 'Meta', ('E', 'MetaCommand', v, None))) for v, _ in mc]
    if not any(v == 'Meta' for v, _ in st):
        raise TranslateError('Statement::Meta missing')
    ev = Ev(auth, {})
    roles = [v for v, _ in enum_variants(auth, 'Role')]
    kgroles = [v for v, _ in enum_variants(auth, 'KgRole')]
    out = coq_header('Authorization decision tables: authorize_statement / authorize_kg_operation', ['src/auth.rs', 'src/statement/mod.rs', 'src/statement/meta.rs'])
    out += 'Inductive role := ' + ' | '.join('R' + r for r in roles) + '.\n'
    out += 'Inductive kgrole := ' + ' | '.join('K' + r for r in kgroles) + '.\n'
    out += 'Inductive stmt_kind :=\n' + '\n'.join('| ' + k for k, _ in kinds) + '.\n\n'
    out += 'Definition all_roles : list role := [' + '; '.join('R' + r for r in roles) + '].\n'
    out += 'Definition all_kgroles : list kgrole := [' + '; '.join('K' + r for r in kgroles) + '].\n'
    out += 'Definition all_kinds : list stmt_kind := [' + '; '.join(k for k, _ in kinds) + '].\n\n'

    def table(fname, fn, rs, prefix, ty):
        s = f'Definition {fname} (r : {ty}) (k : stmt_kind) : bool :=\n  match r, k with\n'
        for r in rs:
            allowed = []
            for k, v in kinds:
                res = ev.call(fn, [('E', 'Role' if ty == 'role' else 'KgRole', r, None), v])
                if res not in (True, False):
                    raise TranslateError(f'{fn} did not evaluate to a decision')
                if res:
                    allowed.append(k)
            for k in allowed:
                s += f'  | {prefix}{r}, {k} => true\n'
        s += '  | _, _ => false\n  end.\n\n'
        return s
    out += table('global_ok', 'authorize_statement', roles, 'R', 'role')
    out += table('kg_ok', 'authorize_kg_operation', kgroles, 'K', 'kgrole')
    out += 'Definition kind_index (k : stmt_kind) : N :=\n  match k with\n' + \
           ''.join(f'  | {k} => {i}%N\n' for i, (k, _) in enumerate(kinds)) + '  end.\n'
    write('AuthTable.v', out)
    return {'roles': roles, 'kgroles': kgroles, 'kinds': [k for k, _ in kinds]}


# ------------------------------------------------------------------ dispatcher
GENS = {'auth': gen_auth}


def main():
    which = sys.argv[1:] or ['all']
    if which == ['all']:
        which = list(GENS)
    rc = 0
    for w in which:
        try:
            info = GENS[w]()
            print(f'translate {w}: ok {info if info and len(str(info)) < 300 else ""}')
        except TranslateError as e:
            print(f'translate {w}: FAILED: {e}')
            rc = 1
    sys.exit(rc)


if __name__ == '__main__':
    main()
