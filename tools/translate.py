#!/usr/bin/env python3
"""Translator: Rust decision code in /repo  ->  coq/Gen/*.v   (re-run by every check).

It is a reader for the small Rust subset the decision tables are written in
(`match` over enum variants with payload-independent patterns, `if *role == Role::X`,
`Ok(())` / `Err(..)`, calls to sibling functions, integer literals, boolean `matches!`).
Anything else makes the translator FAIL (exit 1) rather than guess: a generated table is a
faithful model only if the decision does not look inside payloads.

usage: translate.py auth | rank | guard | schema | all
"""
import re, sys, os

REPO = os.environ.get('VERIF_REPO', '/repo')
ROOT = os.path.dirname(os.path.dirname(os.path.abspath(__file__)))
GEN = os.path.join(ROOT, 'coq', 'Gen')


class TranslateError(Exception):
    pass


# ------------------------------------------------------------------ lexing
TOK = re.compile(r'''
    (?P<ws>\s+)
  | (?P<lc>//[^\n]*)
  | (?P<bc>/\*.*?\*/)
  | (?P<str>"(?:\\.|[^"\\])*")
  | (?P<chr>'(?:\\.|[^'\\])')
  | (?P<num>\d[\d_]*(?:\.\d+)?(?:[iuf]\d+|usize)?)
  | (?P<id>[A-Za-z_][A-Za-z0-9_]*(?:::[A-Za-z_][A-Za-z0-9_]*)*!?)
  | (?P<op>=>|==|!=|<=|>=|&&|\|\||\.\.=|\.\.|->|::|[{}()\[\],;|&*<>=!.:\-+/%@#?'])
''', re.X | re.S)


def lex(src):
    out, i = [], 0
    while i < len(src):
        m = TOK.match(src, i)
        if not m:
            raise TranslateError(f'cannot lex at {src[i:i+40]!r}')
        i = m.end()
        k = m.lastgroup
        if k in ('ws', 'lc', 'bc'):
            continue
        out.append((k, m.group(k)))
    return out


def read(path):
    return open(os.path.join(REPO, path)).read()


def enum_variants(src, name):
    """[(variant, payload_kind)] for `pub enum name { ... }`; payload_kind in '', 'tuple', 'struct'."""
    m = re.search(r'pub enum ' + name + r'\s*\{', src)
    if not m:
        raise TranslateError(f'enum {name} not found')
    toks = lex(src[m.end() - 1:])
    # toks[0] == '{'
    depth, i, vs = 0, 0, []
    expect_variant = False
    while i < len(toks):
        k, t = toks[i]
        if t == '{' or t == '(' or t == '[':
            depth += 1
            if depth == 1:
                expect_variant = True
        elif t == '}' or t == ')' or t == ']':
            depth -= 1
            if depth == 0:
                break
        elif depth == 1:
            if t == '#':  # attribute: skip [...]
                j = i + 1
                d = 0
                while True:
                    if toks[j][1] == '[':
                        d += 1
                    if toks[j][1] == ']':
                        d -= 1
                        if d == 0:
                            break
                    j += 1
                i = j
            elif t == ',':
                expect_variant = True
            elif k == 'id' and expect_variant:
                nxt = toks[i + 1][1]
                vs.append((t, 'tuple' if nxt == '(' else 'struct' if nxt == '{' else ''))
                expect_variant = False
        i += 1
    return vs


def fn_tokens(src, name):
    m = re.search(r'\bfn ' + name + r'\s*(<[^>]*>)?\s*\(', src)
    if not m:
        raise TranslateError(f'fn {name} not found')
    toks = lex(src[m.start():])
    # params
    i = 0
    while toks[i][1] != '(':
        i += 1
    i += 1
    params, depth = [], 1
    cur = []
    while depth > 0:
        t = toks[i][1]
        if t in '([{<' and t != '<':
            depth += 1
        if t in ')]}':
            depth -= 1
            if depth == 0:
                break
        if t == ',' and depth == 1:
            params.append(cur); cur = []
        else:
            cur.append(t)
        i += 1
    if cur:
        params.append(cur)
    pnames = [p[0] if p[0] not in ('&', 'mut') else p[1] for p in params if p and p[0] != '&' or (p and len(p) > 1)]
    pnames = []
    for p in params:
        q = [x for x in p if x not in ('&', 'mut')]
        if q and q[0] == 'self':
            pnames.append('self')
        elif q:
            pnames.append(q[0])
    while toks[i][1] != '{':
        i += 1
    body, j = take_group(toks, i)
    return pnames, body


def take_group(toks, i):
    """toks[i] is an opening bracket; returns (inner tokens, index after the closing bracket)."""
    opener = toks[i][1]
    closer = {'{': '}', '(': ')', '[': ']'}[opener]
    depth, j = 0, i
    while True:
        t = toks[j][1]
        if t in '{([':
            depth += 1
        elif t in '})]':
            depth -= 1
            if depth == 0:
                return toks[i + 1:j], j + 1
        j += 1


# ------------------------------------------------------------------ evaluator
class Ev:
    """Evaluates a function of the subset on symbolic enum values.
    A value is ('Enum', 'Variant', inner) where inner is another value or None, or a python int/bool."""

    def __init__(self, src, enums):
        self.src = src
        self.enums = enums   # name -> [variants]
        self.fn_cache = {}

    def fn(self, name):
        if name not in self.fn_cache:
            self.fn_cache[name] = fn_tokens(self.src, name)
        return self.fn_cache[name]

    def call(self, name, args):
        pn, body = self.fn(name)
        pn = [p for p in pn if p != 'self'] if len(pn) != len(args) else pn
        if len(pn) != len(args):
            raise TranslateError(f'arity mismatch calling {name}')
        env = dict(zip(pn, args))
        v, _ = self.block(body, env)
        return v

    def block(self, toks, env):
        """value of a block body: a single trailing expression (let-statements rejected)."""
        if toks and toks[0][1] == 'let':
            raise TranslateError('let in decision code is outside the translated subset')
        v, i = self.expr(toks, 0, env)
        if i < len(toks) and not all(t[1] in (';', ',') for t in toks[i:]):
            raise TranslateError('trailing tokens in block: ' + ' '.join(t[1] for t in toks[i:i + 8]))
        return v, i

    def atom_value(self, toks, i, env):
        k, t = toks[i]
        if t == '*' or t == '&':
            return self.atom_value(toks, i + 1, env)
        if k == 'num':
            return int(re.match(r'\d+', t.replace('_', '')).group(0)), i + 1
        if t in ('true', 'false'):
            return t == 'true', i + 1
        if k == 'id':
            if t in env:
                return env[t], i + 1
            if '::' in t:
                en, var = t.rsplit('::', 1)
                en = en.split('::')[-1]
                j = i + 1
                if j < len(toks) and toks[j][1] in '({':
                    _, j = take_group(toks, j)
                return ('E', en, var, None), j
        raise TranslateError(f'unsupported atom {t!r}')

    def expr(self, toks, i, env):
        k, t = toks[i]
        if t == '{':
            inner, j = take_group(toks, i)
            v, _ = self.block(inner, env)
            return v, j
        if t == 'Ok':
            _, j = take_group(toks, i + 1)
            return True, j
        if t == 'Err':
            _, j = take_group(toks, i + 1)
            return False, j
        if t == 'if':
            j = i + 1
            cond = []
            while toks[j][1] != '{':
                cond.append(toks[j]); j += 1
            c = self.cond(cond, env)
            a_toks, j = take_group(toks, j)
            if toks[j][1] != 'else':
                raise TranslateError('if without else')
            j += 1
            if toks[j][1] == 'if':
                b, j2 = self.expr(toks, j, env)
            else:
                b_toks, j2 = take_group(toks, j)
                b = None
            if c:
                v, _ = self.block(a_toks, env)
                return v, j2
            if b is None:
                b, _ = self.block(b_toks, env)
            return b, j2
        if t == 'match':
            j = i + 1
            scrut = []
            while toks[j][1] != '{':
                scrut.append(toks[j]); j += 1
            sv = self.scrutinee(scrut, env)
            arms, j = take_group(toks, j)
            return self.match(sv, arms, env), j
        if t == 'matches!':
            inner, j = take_group(toks, i + 1)
            # matches!(x, P1 | P2)
            c = 0
            while inner[c][1] != ',':
                c += 1
            sv = self.scrutinee(inner[:c], env)
            ok = any(self.pat_match(p, sv, {}) for p in self.split_alts(inner[c + 1:]))
            return ok, j
        if k == 'id' and i + 1 < len(toks) and toks[i + 1][1] == '(' and '::' not in t and t not in env:
            inner, j = take_group(toks, i + 1)
            args, cur, depth = [], [], 0
            for tk in inner:
                if tk[1] in '([{':
                    depth += 1
                if tk[1] in ')]}':
                    depth -= 1
                if tk[1] == ',' and depth == 0:
                    args.append(cur); cur = []
                else:
                    cur.append(tk)
            if cur:
                args.append(cur)
            vals = [self.scrutinee(a, env) for a in args]
            return self.call(t, vals), j
        return self.atom_value(toks, i, env)

    def scrutinee(self, toks, env):
        toks = [t for t in toks if t[1] not in ('*', '&')]
        if len(toks) == 1 and toks[0][1] in env:
            return env[toks[0][1]]
        if len(toks) == 1:
            v, _ = self.atom_value(toks, 0, env)
            return v
        if toks[0][1] == '(':  # tuple scrutinee
            inner, _ = take_group(toks, 0)
            parts, cur = [], []
            for tk in inner:
                if tk[1] == ',':
                    parts.append(cur); cur = []
                else:
                    cur.append(tk)
            if cur:
                parts.append(cur)
            return ('T', [self.scrutinee(p, env) for p in parts])
        raise TranslateError('unsupported scrutinee ' + ' '.join(t[1] for t in toks))

    def cond(self, toks, env):
        ts = [t for t in toks]
        for op in ('==', '!='):
            idx = [n for n, t in enumerate(ts) if t[1] == op]
            if idx:
                a = self.scrutinee(ts[:idx[0]], env)
                b = self.scrutinee(ts[idx[0] + 1:], env)
                eq = a[:3] == b[:3] if isinstance(a, tuple) and isinstance(b, tuple) else a == b
                return eq if op == '==' else not eq
        raise TranslateError('unsupported condition ' + ' '.join(t[1] for t in ts))

    def split_alts(self, toks):
        alts, cur, depth = [], [], 0
        for tk in toks:
            if tk[1] in '([{':
                depth += 1
            if tk[1] in ')]}':
                depth -= 1
            if tk[1] == '|' and depth == 0:
                alts.append(cur); cur = []
            else:
                cur.append(tk)
        if cur:
            alts.append(cur)
        return alts

    def pat_match(self, pat, val, binds):
        """pattern tokens vs value; returns bool; payload patterns must be `_`, `..`, or a binding."""
        pat = [t for t in pat if t[1] not in ('&', 'ref')]
        if len(pat) == 1 and pat[0][1] == '_':
            return True
        if pat[0][1] == '(' and isinstance(val, tuple) and val[0] == 'T':
            inner, _ = take_group(pat, 0)
            parts, cur, depth = [], [], 0
            for tk in inner:
                if tk[1] in '([{':
                    depth += 1
                if tk[1] in ')]}':
                    depth -= 1
                if tk[1] == ',' and depth == 0:
                    parts.append(cur); cur = []
                else:
                    cur.append(tk)
            if cur:
                parts.append(cur)
            if len(parts) != len(val[1]):
                raise TranslateError('tuple pattern arity')
            return all(self.pat_match(p, v, binds) for p, v in zip(parts, val[1]))
        k, t = pat[0]
        if k == 'id' and '::' in t:
            en, var = t.rsplit('::', 1)
            en = en.split('::')[-1]
            if en == 'Self':
                en = val[1]
            if not (isinstance(val, tuple) and val[0] == 'E'):
                raise TranslateError('enum pattern against non-enum')
            if len(pat) > 1:
                if pat[1][1] not in '({':
                    raise TranslateError('unexpected pattern tail')
                inner, end = take_group(pat, 1)
                if end != len(pat):
                    raise TranslateError('pattern guard or tail not supported: ' + ' '.join(x[1] for x in pat))
                toks_in = [x[1] for x in inner]
                simple = all(x in ('_', '..', ',') for x in toks_in)
                if not simple:
                    # a single binding  Variant(name)  is allowed; it binds the inner value
                    if len(inner) == 1 and inner[0][0] == 'id' and '::' not in inner[0][1]:
                        if var == val[2] and en == val[1]:
                            binds[inner[0][1]] = val[3]
                    else:
                        raise TranslateError('pattern inspects a payload: ' + ' '.join(x[1] for x in pat))
            return en == val[1] and var == val[2]
        if k == 'id' and len(pat) == 1:     # catch-all binding
            binds[t] = val
            return True
        raise TranslateError('unsupported pattern ' + ' '.join(x[1] for x in pat))

    def match(self, sv, arms, env):
        # split arms:  pattern => expr [,]
        i = 0
        while i < len(arms):
            j = i
            depth = 0
            while not (arms[j][1] == '=>' and depth == 0):
                if arms[j][1] in '([{':
                    depth += 1
                if arms[j][1] in ')]}':
                    depth -= 1
                j += 1
            pat = arms[i:j]
            if any(t[1] == 'if' for t in pat):
                raise TranslateError('match guard not supported')
            # body: either a group/if/match expression or tokens up to the next top-level comma
            k = j + 1
            depth = 0
            end = k
            while end < len(arms):
                t = arms[end][1]
                if t in '([{':
                    depth += 1
                if t in ')]}':
                    depth -= 1
                if t == ',' and depth == 0:
                    break
                if depth == 0 and t == '}' and arms[k][1] in ('{', 'match', 'if'):
                    # block-like arm body may be followed directly by the next pattern
                    nxt = arms[end + 1][1] if end + 1 < len(arms) else ','
                    if nxt != 'else':
                        end += 1
                        break
                end += 1
            body = arms[k:end]
            for alt in self.split_alts(pat):
                b = {}
                if self.pat_match(alt, sv, b):
                    env2 = dict(env); env2.update(b)
                    v, used = self.expr(body, 0, env2)
                    if used != len(body):
                        raise TranslateError('arm body not fully consumed: ' + ' '.join(t[1] for t in body[used:used + 6]))
                    return v
            i = end + 1 if end < len(arms) and arms[end][1] == ',' else end
        raise TranslateError('non-exhaustive match in source?')


def coq_header(what, srcs):
    return f'(* GENERATED by tools/translate.py from {", ".join(srcs)} — do not edit; regenerated on every check run. *)\n' \
           f'(* {what} *)\nFrom Coq Require Import List Bool NArith.\nImport ListNotations.\n\n'


def write(name, text):
    os.makedirs(GEN, exist_ok=True)
    p = os.path.join(GEN, name)
    old = open(p).read() if os.path.exists(p) else None
    if old != text:
        open(p, 'w').write(text)


# ------------------------------------------------------------------ auth tables (C27, C28, C29)
def gen_auth():
    auth = read('src/auth.rs')
    st = enum_variants(read('src/statement/mod.rs'), 'Statement')
    mc = enum_variants(read('src/statement/meta.rs'), 'MetaCommand')
    kinds = [('S' + v, ('E', 'Statement', v, None)) for v, _ in st if v != 'Meta'] + \
            [('M' + v, ('E', 'Statement', 'Meta', ('E', 'MetaCommand', v, None))) for v, _ in mc]
    if not any(v == 'Meta' for v, _ in st):
        raise TranslateError('Statement::Meta missing')
    ev = Ev(auth, {})
    roles = [v for v, _ in enum_variants(auth, 'Role')]
    kgroles = [v for v, _ in enum_variants(auth, 'KgRole')]
    out = coq_header('Authorization decision tables: authorize_statement / authorize_kg_operation', ['src/auth.rs', 'src/statement/mod.rs', 'src/statement/meta.rs'])
    out += 'Inductive role := ' + ' | '.join('R' + r for r in roles) + '.\n'
    out += 'Inductive kgrole := ' + ' | '.join('K' + r for r in kgroles) + '.\n'
    out += 'Inductive stmt_kind :=\n' + '\n'.join('| ' + k for k, _ in kinds) + '.\n\n'
    out += 'Definition all_roles : list role := [' + '; '.join('R' + r for r in roles) + '].\n'
    out += 'Definition all_kgroles : list kgrole := [' + '; '.join('K' + r for r in kgroles) + '].\n'
    out += 'Definition all_kinds : list stmt_kind := [' + '; '.join(k for k, _ in kinds) + '].\n\n'

    def table(fname, fn, rs, prefix, ty):
        s = f'Definition {fname} (r : {ty}) (k : stmt_kind) : bool :=\n  match r, k with\n'
        for r in rs:
            allowed = []
            for k, v in kinds:
                res = ev.call(fn, [('E', 'Role' if ty == 'role' else 'KgRole', r, None), v])
                if res not in (True, False):
                    raise TranslateError(f'{fn} did not evaluate to a decision')
                if res:
                    allowed.append(k)
            for k in allowed:
                s += f'  | {prefix}{r}, {k} => true\n'
        s += '  | _, _ => false\n  end.\n\n'
        return s
    out += table('global_ok', 'authorize_statement', roles, 'R', 'role')
    out += table('kg_ok', 'authorize_kg_operation', kgroles, 'K', 'kgrole')
    out += 'Definition kind_index (k : stmt_kind) : N :=\n  match k with\n' + \
           ''.join(f'  | {k} => {i}%N\n' for i, (k, _) in enumerate(kinds)) + '  end.\n'
    write('AuthTable.v', out)
    return {'roles': roles, 'kgroles': kgroles, 'kinds': [k for k, _ in kinds]}


# ------------------------------------------------------------------ value / wire-value rank tables (C31, C35)
class EvBody(Ev):
    """Ev that does not fail on an arm body outside the subset: the body is returned opaquely as
    ('BODY', text).  Used to classify every (variant, variant) pair of a comparison `match` as either a
    payload-independent constant or a payload-dependent arm (whose meaning is modelled by hand and
    tied by the correspondence check)."""

    def expr(self, toks, i, env):
        try:
            v, j = Ev.expr(self, toks, i, env)
            if i == 0 and not all(t[1] in (';', ',') for t in toks[j:]):
                raise TranslateError('opaque')
            return v, j
        except (TranslateError, IndexError):
            if i != 0:
                raise
            return ('BODY', ' '.join(t[1] for t in toks)), len(toks)


def impl_block(src, header_re):
    m = re.search(header_re + r'\s*\{', src)
    if not m:
        raise TranslateError(f'impl block {header_re!r} not found')
    depth, i = 0, m.end() - 1
    while True:
        if src[i] == '{':
            depth += 1
        elif src[i] == '}':
            depth -= 1
            if depth == 0:
                return src[m.start():i + 1]
        i += 1


def _ordering(v, what):
    if isinstance(v, tuple) and v[:2] == ('E', 'Ordering') and v[2] in ('Less', 'Equal', 'Greater'):
        return {'Less': 'Lt', 'Equal': 'Eq', 'Greater': 'Gt'}[v[2]]
    raise TranslateError(f'{what}: arm does not evaluate to an Ordering: {v!r}')


def gen_rank():
    """impl Ord for Value: for every ordered pair of variants, the payload-independent answer of `cmp`
    (Some c) or None when the matching arm looks at payloads; plus declaration order (= mem::discriminant)."""
    src = read('src/value/mod.rs')
    variants = enum_variants(src, 'Value')
    names = [v for v, _ in variants]
    ev = EvBody(impl_block(src, r'impl Ord for Value'), {})
    out = coq_header('Cross-kind arms of `impl Ord for Value` and declaration order of `enum Value`', ['src/value/mod.rs'])
    out += 'Inductive vkind := ' + ' | '.join('K' + n for n in names) + '.\n'
    out += 'Definition all_vkinds : list vkind := [' + '; '.join('K' + n for n in names) + '].\n\n'
    out += '(* position in the enum declaration = value hashed by `std::mem::discriminant(self).hash(..)` *)\n'
    out += 'Definition vkind_discr (k : vkind) : N :=\n  match k with\n' + \
           ''.join(f'  | K{n} => {i}%N\n' for i, n in enumerate(names)) + '  end.\n\n'
    out += '(* `Some c`: the arm of `cmp` selected for this pair of variants returns c whatever the payloads;\n' \
           '   `None`: the selected arm compares payloads *)\n'
    out += 'Definition cross_cmp (a b : vkind) : option comparison :=\n  match a, b with\n'
    npay = 0
    for a in names:
        for b in names:
            v = ev.call('cmp', [('E', 'Value', a, None), ('E', 'Value', b, None)])
            if isinstance(v, tuple) and v[0] == 'BODY':
                npay += 1
                continue
            out += f'  | K{a}, K{b} => Some {_ordering(v, "Value::cmp")}\n'
    out += '  | _, _ => None\n  end.\n'
    write('ValueRank.v', out)
    return {'kinds': len(names), 'payload_arms': npay}


def gen_wirerank():
    """compare_wire_values / wire_value_type_rank (src/protocol/handler.rs): rank table and, for every pair
    of WireValue variants, which kind of arm of the inner `match (va, vb)` decides."""
    full = read('src/protocol/handler.rs')
    # handler.rs contains raw strings the lexer does not know; cut out the two functions textually
    src = impl_block(full, r'\bfn compare_wire_values\s*\([^)]*\)\s*->\s*[\w:]+') + '\n' + \
        impl_block(full, r'\bfn wire_value_type_rank\s*\([^)]*\)\s*->\s*\w+') + '\n'
    wsrc = read('src/protocol/wire.rs')
    names = [v for v, _ in enum_variants(wsrc, 'WireValue')]
    ev = EvBody(src, {})
    ranks = {}
    for n in names:
        r = ev.call('wire_value_type_rank', [('E', 'WireValue', n, None)])
        if not isinstance(r, int) or isinstance(r, bool):
            raise TranslateError(f'wire_value_type_rank({n}) is not an integer literal: {r!r}')
        ranks[n] = r
    # outer match of compare_wire_values: must be the four Option shapes, in any order
    _, body = fn_tokens(src, 'compare_wire_values')
    txt = ' '.join(t[1] for t in body)
    for shape, res in (('( None , None ) =>', 'Equal'), ('( None , Some ( _ ) ) =>', 'Less'), ('( Some ( _ ) , None ) =>', 'Greater')):
        m = re.search(re.escape(shape) + r'\s*((?:\w+ :: )*\w+(?:::\w+)*)', txt)
        if not m or not m.group(1).replace(' ', '').endswith('Ordering::' + res):
            raise TranslateError(f'compare_wire_values: outer arm {shape} is not Ordering::{res}')
    idx = [n for n, t in enumerate(body) if t[1] == 'match']
    if len(idx) != 2:
        raise TranslateError('compare_wire_values: expected exactly one outer and one inner match')
    j = idx[1] + 1
    scrut = []
    while body[j][1] != '{':
        scrut.append(body[j][1]); j += 1
    if scrut != ['(', 'va', ',', 'vb', ')'] or ' '.join(t[1] for t in body[idx[1] - 12:idx[1]]) != '( Some ( va ) , Some ( vb ) ) =>':
        raise TranslateError('compare_wire_values: inner match is not `(Some(va), Some(vb)) => match (va, vb)`')
    arms, _ = take_group(body, j)
    out = coq_header('wire_value_type_rank and the arm structure of compare_wire_values', ['src/protocol/handler.rs', 'src/protocol/wire.rs'])
    out += 'Inductive wkind := ' + ' | '.join('WK' + n for n in names) + '.\n'
    out += 'Definition all_wkinds : list wkind := [' + '; '.join('WK' + n for n in names) + '].\n\n'
    out += 'Definition wire_rank (k : wkind) : N :=\n  match k with\n' + \
           ''.join(f'  | WK{n} => {ranks[n]}%N\n' for n in names) + '  end.\n\n'
    out += '(* which arm of `match (va, vb)` decides a pair of kinds:\n' \
           '   WConst c = a payload-independent constant, WRank = comparison of wire_rank, WPayload = looks at payloads *)\n'
    out += 'Inductive warm := WConst (c : comparison) | WRank | WPayload.\n'
    out += 'Definition wire_arm (a b : wkind) : warm :=\n  match a, b with\n'
    stats = {'const': 0, 'rank': 0, 'payload': 0}
    rank_body = 'wire_value_type_rank ( va ) . cmp ( & wire_value_type_rank ( vb ) )'
    for a in names:
        for b in names:
            va, vb = ('E', 'WireValue', a, None), ('E', 'WireValue', b, None)
            v = ev.match(('T', [va, vb]), arms, {'va': va, 'vb': vb})
            if isinstance(v, tuple) and v[0] == 'BODY':
                if v[1].replace(' ,', '').strip() == rank_body:
                    stats['rank'] += 1
                    continue
                if 'wire_value_type_rank' in v[1]:
                    raise TranslateError('compare_wire_values: unrecognised use of wire_value_type_rank: ' + v[1])
                stats['payload'] += 1
                out += f'  | WK{a}, WK{b} => WPayload\n'
            else:
                stats['const'] += 1
                out += f'  | WK{a}, WK{b} => WConst {_ordering(v, "compare_wire_values")}\n'
    out += '  | _, _ => WRank\n  end.\n'
    write('WireRank.v', out)
    return stats


# ------------------------------------------------------------------ dispatcher
GENS = {'auth': gen_auth}
GENS['rank'] = gen_rank
GENS['wirerank'] = gen_wirerank


# ------------------------------------------------------------------ partition guard (C03)
def enum_variant_fields(src, name):
    """[(variant, [(field, type_text)])] for struct-like variants of `pub enum name`."""
    m = re.search(r'pub enum ' + name + r'\s*\{', src)
    if not m:
        raise TranslateError(f'enum {name} not found')
    toks = lex(src[m.end() - 1:])
    body, _ = take_group(toks, 0)
    out, i = [], 0
    while i < len(body):
        k, t = body[i]
        if t == '#':
            _, i = take_group(body, i + 1)
            continue
        if k == 'id':
            fields = []
            j = i + 1
            if j < len(body) and body[j][1] == '{':
                inner, j = take_group(body, j)
                # split fields on top-level commas; each is  name : type   (attributes skipped)
                cur, depth, parts = [], 0, []
                for tk in inner:
                    if tk[1] in '([{<':
                        depth += 1
                    if tk[1] in ')]}>':
                        depth -= 1
                    if tk[1] == ',' and depth == 0:
                        parts.append(cur); cur = []
                    else:
                        cur.append(tk)
                if cur:
                    parts.append(cur)
                for part in parts:
                    while part and part[0][1] == '#':
                        _, e = take_group(part, 1)
                        part = part[e:]
                    part = [x for x in part if x[1] != 'pub']
                    if len(part) >= 3 and part[1][1] == ':':
                        fields.append((part[0][1], ' '.join(x[1] for x in part[2:])))
            elif j < len(body) and body[j][1] == '(':
                raise TranslateError(f'{name}::{t}: tuple variant not expected')
            out.append((t, fields))
            i = j
            while i < len(body) and body[i][1] != ',':
                i += 1
        i += 1
    return out


def gen_guard():
    """CodeGenerator::contains_join  ->  Gen/PartitionGuard.v.
    Each arm of the `match ir` must be `IRNode::K {..} => true | false | <recursion>` where
    <recursion> is an `||` of `Self::contains_join(<field>)` / `<field>.iter().any(Self::contains_join)`.
    A kind is GRec only when EVERY IRNode-typed field of the variant is recursed into;
    recursion into a strict subset is GPartial (the proof obligation then fails)."""
    cg = read('src/code_generator/mod.rs')
    variants = enum_variant_fields(read('src/ir/mod.rs'), 'IRNode')
    names = [v for v, _ in variants]
    child_fields = {}
    for v, fields in variants:
        child_fields[v] = [f for f, ty in fields if re.search(r'\bIRNode\b', ty)]
    pn, body = fn_tokens(cg, 'contains_join')
    if len(pn) != 1:
        raise TranslateError('contains_join: expected one parameter')
    if not (body and body[0][1] == 'match'):
        raise TranslateError('contains_join: body is not a single match')
    j = 1
    while body[j][1] != '{':
        j += 1
    scrut = [t[1] for t in body[1:j] if t[1] not in ('*', '&')]
    if scrut != [pn[0]]:
        raise TranslateError('contains_join: match scrutinee is not the parameter')
    arms, end = take_group(body, j)
    if end != len(body):
        raise TranslateError('contains_join: tokens after the match')
    # split arms
    actions = {}
    i = 0
    while i < len(arms):
        k = i
        depth = 0
        while not (arms[k][1] == '=>' and depth == 0):
            if arms[k][1] in '([{':
                depth += 1
            if arms[k][1] in ')]}':
                depth -= 1
            k += 1
        pat = arms[i:k]
        e = k + 1
        depth = 0
        while e < len(arms) and not (arms[e][1] == ',' and depth == 0):
            if arms[e][1] in '([{':
                depth += 1
            if arms[e][1] in ')]}':
                depth -= 1
            e += 1
        rhs = arms[k + 1:e]
        i = e + 1
        if any(t[1] == 'if' for t in pat):
            raise TranslateError('contains_join: match guard not supported')
        # alternatives
        alts, cur, depth = [], [], 0
        for tk in pat:
            if tk[1] in '([{':
                depth += 1
            if tk[1] in ')]}':
                depth -= 1
            if tk[1] == '|' and depth == 0:
                alts.append(cur); cur = []
            else:
                cur.append(tk)
        alts.append(cur)
        rtxt = ' '.join(t[1] for t in rhs)
        for alt in alts:
            if len(alt) == 1 and alt[0][1] == '_':
                kinds = [n for n in names if n not in actions]
                binds = None
            else:
                head = alt[0][1]
                if '::' not in head or head.split('::')[-2] not in ('IRNode', 'Self'):
                    raise TranslateError('contains_join: unexpected pattern ' + ' '.join(t[1] for t in alt))
                kinds = [head.split('::')[-1]]
                binds = []
                if len(alt) > 1:
                    inner, _ = take_group(alt, 1)
                    binds = [t[1] for t in inner if t[0] == 'id' and t[1] not in ('ref', 'mut')]
            for kd in kinds:
                if kd not in names:
                    raise TranslateError(f'contains_join: unknown IRNode variant {kd}')
                if rtxt == 'true':
                    act = 'GForce'
                elif rtxt == 'false':
                    act = 'GFree'
                else:
                    # || of recursive calls
                    parts = [x.strip() for x in rtxt.split('||')]
                    rec = []
                    for part in parts:
                        m1 = re.fullmatch(r'Self::contains_join \( (\w+) \)', part)
                        m2 = re.fullmatch(r'(\w+) \. iter \( \) \. any \( Self::contains_join \)', part)
                        mm = m1 or m2
                        if not mm:
                            raise TranslateError(f'contains_join: arm for {kd} is outside the translated subset: {rtxt}')
                        rec.append(mm.group(1))
                    if binds is None or any(x not in binds for x in rec):
                        raise TranslateError(f'contains_join: arm for {kd} recurses into something that is not a field binding')
                    act = 'GRec' if set(child_fields[kd]) <= set(rec) else 'GPartial'
                if kd in actions:
                    continue        # earlier arm wins
                actions[kd] = act
    missing = [n for n in names if n not in actions]
    if missing:
        raise TranslateError('contains_join: no arm for ' + ', '.join(missing))
    out = coq_header('Partition-safety guard: which IRNode kinds force single-worker execution (CodeGenerator::contains_join)',
                     ['src/code_generator/mod.rs', 'src/ir/mod.rs'])
    out += 'Inductive gkind := ' + ' | '.join('G' + n for n in names) + '.\n'
    out += '(* GForce: the guard answers true at this kind; GFree: false; GRec: true iff it is true for\n' \
           '   some input (every input is inspected); GPartial: some input is not inspected *)\n'
    out += 'Inductive gaction := GForce | GFree | GRec | GPartial.\n'
    out += 'Definition all_gkinds : list gkind := [' + '; '.join('G' + n for n in names) + '].\n'
    out += 'Definition guard_action (k : gkind) : gaction :=\n  match k with\n' + \
           ''.join(f'  | G{n} => {actions[n]}\n' for n in names) + '  end.\n'
    out += 'Definition gkind_inputs (k : gkind) : nat :=   (* number of IRNode-typed fields *)\n  match k with\n' + \
           ''.join(f'  | G{n} => {len(child_fields[n])}\n' for n in names) + '  end.\n'
    write('PartitionGuard.v', out)
    return {'actions': actions}


GENS['guard'] = gen_guard


# ------------------------------------------------------------------ schema type matching (C33)
def gen_schema():
    """SchemaType::matches  ->  Gen/SchemaMatches.v.
    The body must be ONE `match (self, value) { (SchemaType::T.., Value::V..) => rhs, ... }`.
    Accepted type patterns: `SchemaType::K`, `SchemaType::Vector { dim: Some(n) }`,
    `SchemaType::Vector { dim: None }`, `SchemaType::Named(_)`, `_`.  Accepted value patterns:
    `Value::K(_)`, `Value::K(v)`, `_`.  Accepted right-hand sides: `true`, `false`, and
    `v.len() == *n` with v/n the bindings of that arm (outcome MLen: length equals declared dim).
    First matching arm wins.  Anything else makes the translation fail."""
    src = read('src/schema/mod.rs')
    tvars = enum_variants(src, 'SchemaType')
    vvars = enum_variants(read('src/value/mod.rs'), 'Value')
    tkinds = []
    for v, kind in tvars:
        if v == 'Vector':
            if kind != 'struct':
                raise TranslateError('SchemaType::Vector is expected to be a struct variant { dim }')
            tkinds += ['VectorDim', 'VectorAny']
        else:
            tkinds.append(v)
    vkinds = [v for v, _ in vvars]
    pn, body = fn_tokens(src, 'matches')
    if pn != ['self', 'value']:
        raise TranslateError(f'matches: unexpected parameters {pn}')
    if not (body and body[0][1] == 'match'):
        raise TranslateError('matches: body is not a single match')
    j = 1
    while body[j][1] != '{':
        j += 1
    scrut = ''.join(t[1] for t in body[1:j])
    if scrut != '(self,value)':
        raise TranslateError('matches: scrutinee is not (self, value): ' + scrut)
    arms, end = take_group(body, j)
    if end != len(body):
        raise TranslateError('matches: tokens after the match')
    table = {}
    i = 0
    while i < len(arms):
        k, depth = i, 0
        while not (arms[k][1] == '=>' and depth == 0):
            if arms[k][1] in '([{':
                depth += 1
            if arms[k][1] in ')]}':
                depth -= 1
            k += 1
        pat = arms[i:k]
        e, depth = k + 1, 0
        while e < len(arms) and not (arms[e][1] == ',' and depth == 0):
            if arms[e][1] in '([{':
                depth += 1
            if arms[e][1] in ')]}':
                depth -= 1
            e += 1
        rhs = ' '.join(t[1] for t in arms[k + 1:e])
        i = e + 1
        ptxt = ' '.join(t[1] for t in pat)
        if any(t[1] == 'if' for t in pat):
            raise TranslateError('matches: match guard not supported: ' + ptxt)
        if ptxt == '_':
            ts, vs, tb, vb = list(tkinds), list(vkinds), None, None
        else:
            if pat[0][1] != '(':
                raise TranslateError('matches: arm is not a pair pattern: ' + ptxt)
            inner, pe = take_group(pat, 0)
            if pe != len(pat):
                raise TranslateError('matches: tokens after the pair pattern: ' + ptxt)
            # split the pair on the top-level comma
            parts, cur, depth = [], [], 0
            for tk in inner:
                if tk[1] in '([{':
                    depth += 1
                if tk[1] in ')]}':
                    depth -= 1
                if tk[1] == ',' and depth == 0:
                    parts.append(cur); cur = []
                else:
                    cur.append(tk)
            parts.append(cur)
            if len(parts) != 2:
                raise TranslateError('matches: pattern is not a pair: ' + ptxt)
            tp = ' '.join(t[1] for t in parts[0])
            vp = ' '.join(t[1] for t in parts[1])
            tb = vb = None
            if tp == '_':
                ts = list(tkinds)
            else:
                m = re.fullmatch(r'SchemaType::(\w+)(?: (.*))?', tp)
                if not m:
                    raise TranslateError('matches: unexpected type pattern ' + tp)
                name, rest = m.group(1), m.group(2)
                if name == 'Vector':
                    m2 = re.fullmatch(r'\{ dim : Some \( (\w+) \) \}', rest or '')
                    if m2:
                        ts, tb = ['VectorDim'], m2.group(1)
                    elif (rest or '') == '{ dim : None }':
                        ts = ['VectorAny']
                    elif (rest or '') in ('{ .. }', '{ dim : _ }'):
                        ts = ['VectorDim', 'VectorAny']
                    else:
                        raise TranslateError('matches: unexpected Vector pattern ' + tp)
                elif name in tkinds:
                    if rest not in (None, '( _ )'):
                        raise TranslateError('matches: type pattern inspects a payload: ' + tp)
                    ts = [name]
                else:
                    raise TranslateError('matches: unknown SchemaType variant ' + name)
            if vp == '_':
                vs = list(vkinds)
            else:
                m = re.fullmatch(r'Value::(\w+)(?: \( (\w+) \))?', vp)
                if not m or m.group(1) not in vkinds:
                    raise TranslateError('matches: unexpected value pattern ' + vp)
                vs = [m.group(1)]
                if m.group(2) and m.group(2) != '_':
                    vb = m.group(2)
        if rhs == 'true':
            out = 'MYes'
        elif rhs == 'false':
            out = 'MNo'
        elif tb and vb and rhs == f'{vb} . len ( ) == * {tb}':
            out = 'MLen'
            if not all(v in ('Vector', 'VectorInt8') for v in vs):
                raise TranslateError('matches: length test on a non-vector value: ' + ptxt)
        else:
            raise TranslateError(f'matches: right-hand side outside the translated subset: {rhs}')
        for t in ts:
            for v in vs:
                table.setdefault((t, v), out)      # earlier arm wins
    missing = [(t, v) for t in tkinds for v in vkinds if (t, v) not in table]
    if missing:
        raise TranslateError(f'matches: no arm covers {missing[:3]}')
    out = coq_header('Schema type matching table (SchemaType::matches): declared type kind x value kind', ['src/schema/mod.rs', 'src/value/mod.rs'])
    out += 'Inductive tkind := ' + ' | '.join('T' + t for t in tkinds) + '.\n'
    out += 'Inductive vkind := ' + ' | '.join('K' + v for v in vkinds) + '.\n'
    out += '(* MYes: accepted; MNo: rejected; MLen: accepted iff the vector length equals the declared dimension *)\n'
    out += 'Inductive moutcome := MYes | MNo | MLen.\n'
    out += 'Definition all_tkinds : list tkind := [' + '; '.join('T' + t for t in tkinds) + '].\n'
    out += 'Definition all_vkinds : list vkind := [' + '; '.join('K' + v for v in vkinds) + '].\n'
    out += 'Definition matches_table (t : tkind) (v : vkind) : moutcome :=\n  match t, v with\n'
    for t in tkinds:
        for v in vkinds:
            out += f'  | T{t}, K{v} => {table[(t, v)]}\n'
    out += '  end.\n'
    write('SchemaMatches.v', out)
    return {'tkinds': len(tkinds), 'vkinds': len(vkinds), 'yes': sum(1 for x in table.values() if x == 'MYes'), 'len': sum(1 for x in table.values() if x == 'MLen')}


GENS['schema'] = gen_schema


def main():
    which = sys.argv[1:] or ['all']
    if which == ['all']:
        which = list(GENS)
    rc = 0
    for w in which:
        try:
            info = GENS[w]()
            print(f'translate {w}: ok {info if info and len(str(info)) < 300 else ""}')
        except TranslateError as e:
            print(f'translate {w}: FAILED: {e}')
            rc = 1
    sys.exit(rc)


if __name__ == '__main__':
    main()
