#!/usr/bin/env python3
"""Single entry point:  tools/check.py Cxx [--tier quick|thorough] [--replay FILE]

One run =  (1) regenerate Gen/*.v from /repo (translator)        [tools/translate.py]
           (2) re-prove the property's Coq targets (full .vo)    [coq/mk.sh]
           (3) audit: Print Assumptions of every property theorem, hygiene grep
           (4) build the Rust harness against /repo's CURRENT working tree (hooks on)
           (5) run the harness -> cases_*.v (inputs + implementation outputs)
           (6) coqc every shard: model-vs-implementation correspondence + property oracle
           (7) decide, write evidence/Cxx.json, print VIOLATION / KNOWN-FINDING lines
Exit 0 = property held on everything explored; exit 1 = violation (see brief)."""
import sys, os, json, re, subprocess, time, glob, shutil, hashlib
from concurrent.futures import ThreadPoolExecutor

ROOT = os.path.dirname(os.path.dirname(os.path.abspath(__file__)))
COQ = os.path.join(ROOT, 'coq')
sys.path.insert(0, os.path.join(ROOT, 'tools'))
from props import PROPS  # noqa: E402

ALLOWED_AXIOMS_DEFAULT = set()
HYGIENE_RE = re.compile(r'\b(Admitted|admit|Axiom|Axioms|Parameter|Parameters|Conjecture|Conjectures)\b|Unset Guard|bypass_check|type-in-type|impredicative-set|Admit Obligations|Unset Positivity|Unset Universe Checking')


def sh(cmd, cwd=None, timeout=None, env=None):
    t0 = time.time()
    try:
        p = subprocess.run(cmd, shell=isinstance(cmd, str), cwd=cwd, timeout=timeout, env=env,
                           stdout=subprocess.PIPE, stderr=subprocess.STDOUT, text=True, errors='replace')
        return p.returncode, p.stdout, time.time() - t0
    except subprocess.TimeoutExpired as e:
        out = e.stdout if isinstance(e.stdout, str) else (e.stdout or b'').decode(errors='replace')
        return 124, (out or '') + '\n[timeout]', time.time() - t0


def strip_comments(src):
    out, depth, i = [], 0, 0
    while i < len(src):
        if src.startswith('(*', i):
            depth += 1; i += 2
        elif src.startswith('*)', i) and depth > 0:
            depth -= 1; i += 2
        else:
            if depth == 0:
                out.append(src[i])
            i += 1
    return ''.join(out)


def hygiene():
    """No Admitted/admit/Axiom/Parameter/... anywhere in the development (comments stripped).
    `Variable`/`Hypothesis` are allowed only inside a Section; we simply forbid `Hypothesis`
    and check `Variable` occurrences are inside sections."""
    bad = []
    for f in glob.glob(os.path.join(COQ, '**', '*.v'), recursive=True):
        src = strip_comments(open(f).read())
        for m in HYGIENE_RE.finditer(src):
            bad.append(f'{os.path.relpath(f, ROOT)}: {m.group(0)}')
        depth = 0
        for line in src.split('\n'):
            if re.match(r'\s*Section\b', line):
                depth += 1
            if re.match(r'\s*End\b', line) and depth > 0:
                depth -= 1
            if re.match(r'\s*(Variable|Variables|Context|Hypothesis|Hypotheses)\b', line) and depth == 0:
                bad.append(f'{os.path.relpath(f, ROOT)}: Variable/Hypothesis outside a section')
    return bad


def theorems_of(props_file):
    src = strip_comments(open(os.path.join(COQ, props_file)).read())
    return re.findall(r'^\s*Theorem\s+(\w+)', src, flags=re.M)


def audit(pid, cfg, work):
    """coqc a tiny file that Requires the property file and prints assumptions of each theorem."""
    thms = theorems_of(cfg['props_file'])
    mod = cfg['props_file'][:-2].replace('/', '.')
    lines = [f'From IL Require Import {mod}.']
    for t in thms:
        lines.append(f'Print Assumptions {t}.')
    p = os.path.join(work, 'audit.v')
    open(p, 'w').write('\n'.join(lines) + '\n')
    rc, out, _ = sh(['coqc', '-noglob', '-Q', COQ, 'IL', p], cwd=work, timeout=600)
    # split per theorem: outputs come in order
    blocks = re.split(r'(?=Closed under the global context|Axioms:)', out)
    blocks = [b for b in blocks if b.strip().startswith(('Closed', 'Axioms:'))]
    allowed = set(cfg.get('allowed_axioms', []))
    res = []
    for i, t in enumerate(thms):
        if rc != 0 or i >= len(blocks):
            res.append((t, False, ['<audit failed>']))
            continue
        b = blocks[i]
        if b.startswith('Closed'):
            res.append((t, True, []))
        else:
            ax = re.findall(r'^([A-Za-z_][\w.\']*)\s*:', b, flags=re.M)
            ax = [a for a in ax if a != 'Axioms']
            res.append((t, all(a in allowed for a in ax), ax))
    return res, out


def run_shard(path):
    rc, out, dt = sh(['coqc', '-noglob', '-Q', COQ, 'IL', path], cwd=os.path.dirname(path), timeout=1800)
    if rc != 0:
        return path, None, out[-2000:]
    flat = ' '.join(out.split())
    m = re.search(r'=\s*(\[.*?\]|nil)\s*:\s*list N', flat)
    if not m:
        return path, None, out[-2000:]
    nums = [int(x) for x in re.findall(r'(\d+)(?:%N)?', m.group(1))]
    return path, nums, ''


def load_known(pid):
    p = os.path.join(ROOT, 'KNOWN_FINDINGS.json')
    if not os.path.exists(p):
        return []
    return [f for f in json.load(open(p)).get('findings', []) if f['property'] == pid]


def main():
    args = sys.argv[1:]
    if not args:
        print(__doc__); sys.exit(2)
    pid = args[0]
    tier = os.environ.get('VERIF_TIER', 'quick')
    replay = None
    i = 1
    while i < len(args):
        if args[i] == '--tier':
            tier = args[i + 1]; i += 2
        elif args[i] == '--replay':
            replay = args[i + 1]; i += 2
        else:
            i += 1
    if tier not in ('quick', 'thorough'):
        tier = 'quick'
    seed = int(os.environ.get('VERIF_SEED', '1') or 1)
    cfg = PROPS[pid]
    t_start = time.time()
    alt_repo = os.environ.get('VERIF_REPO')
    if alt_repo and os.path.realpath(alt_repo) == '/repo':
        alt_repo = None
    sfx = ('-' + re.sub(r'[^A-Za-z0-9_-]', '_', os.path.basename(os.path.realpath(alt_repo)))) if alt_repo else ''     # mutation testing against a scratch worktree: separate work/evidence/target dirs
    work = os.path.join(ROOT, 'work', pid + sfx)
    shutil.rmtree(work, ignore_errors=True)
    os.makedirs(work, exist_ok=True)
    os.makedirs(os.path.join(ROOT, 'cache'), exist_ok=True)
    os.makedirs(os.path.join(ROOT, 'evidence' + sfx), exist_ok=True)
    os.makedirs(os.path.join(ROOT, 'replay'), exist_ok=True)
    log = open(os.path.join(work, 'log.txt'), 'w')

    def note(*a):
        print(*a); log.write(' '.join(str(x) for x in a) + '\n'); log.flush()

    obligations = []   # (name, ok, detail)
    broken = []        # names of theorems / correspondences that no longer check

    # ---- (1) translator
    if cfg.get('gen'):
        rc, out, dt = sh([sys.executable, os.path.join(ROOT, 'tools', 'translate.py')] + cfg['gen'], cwd=ROOT, timeout=300)
        log.write(out)
        ok = rc == 0
        obligations.append(('translate:' + ','.join(cfg['gen']), ok, out[-400:] if not ok else ''))
        if not ok:
            broken.append('translator ' + ','.join(cfg['gen']))

    # ---- (2) proofs (full .vo build of this property's targets); Checks/ are built separately
    lock = os.path.join(ROOT, 'cache', 'coq.lock')
    chk_targets = [t for t in cfg['coq_targets'] if t.startswith('Checks/')]
    prf_targets = [t for t in cfg['coq_targets'] if not t.startswith('Checks/')]
    rc_c, out_c, dt_c = sh(['flock', lock, os.path.join(COQ, 'mk.sh')] + chk_targets, cwd=COQ, timeout=3000)
    log.write(out_c)
    obligations.append(('coq-model-and-checker-build', rc_c == 0, out_c[-1500:] if rc_c else ''))
    rc_p, out_p, dt_p = sh(['flock', lock, os.path.join(COQ, 'mk.sh')] + prf_targets, cwd=COQ, timeout=3000)
    log.write(out_p)
    obligations.append(('coq-proofs-build ' + ' '.join(prf_targets), rc_p == 0, out_p[-1500:] if rc_p else ''))
    if rc_p != 0:
        m = re.search(r'File "\./([^"]+)", line (\d+)', out_p)
        broken.append('proof ' + (f'{m.group(1)}:{m.group(2)}' if m else ' '.join(prf_targets)))
    note(f'[{pid}] coq build: checks {dt_c:.1f}s rc={rc_c}, proofs {dt_p:.1f}s rc={rc_p}')

    # ---- (3) audit
    thm_axioms = {}
    if rc_p == 0:
        res, aout = audit(pid, cfg, work)
        log.write(aout)
        for t, ok, ax in res:
            obligations.append((f'theorem {t} (Print Assumptions: {"closed" if not ax else ", ".join(ax)})', ok, ''))
            thm_axioms[t] = ax
            if not ok:
                broken.append(f'theorem {t} depends on non-allow-listed axioms {ax}')
    if tier == 'thorough' and rc_p == 0:
        # independent re-check of the compiled property file and everything it depends on
        mod = 'IL.' + cfg['props_file'][:-2].replace('/', '.')
        rc_k, out_k, dt_k = sh(['coqchk', '-silent', '-o', '-Q', COQ, 'IL', mod], cwd=COQ, timeout=3000)
        log.write(out_k[-4000:])
        axs = re.findall(r'^\s+([A-Za-z_][\w.\']*)\s*$', out_k.split('Axioms:')[-1], flags=re.M) if 'Axioms:' in out_k else []
        allowed_k = set(cfg.get('allowed_axioms', []))
        ok_k = rc_k == 0 and all(a.split('.')[-1] in {x.split('.')[-1] for x in allowed_k} for a in axs)
        obligations.append((f'coqchk -o {mod} ({dt_k:.0f}s; axioms: {axs if axs else "none"})', ok_k, out_k[-600:] if not ok_k else ''))
        if not ok_k:
            broken.append('coqchk ' + mod)
    bad = hygiene()
    obligations.append(('hygiene: no Admitted/admit/Axiom/Parameter/Conjecture/unsafe flags in coq/', not bad, '; '.join(bad[:5])))
    if bad:
        broken.append('hygiene ' + '; '.join(bad[:3]))

    # ---- (4) harness build against /repo's current tree
    evals = 0; flagged = []; shard_errors = []; cases = {}; meta = {}
    n = cfg['n_thorough'] if tier == 'thorough' else cfg['n_quick']
    if replay:
        rj = json.load(open(replay))
        seed = rj.get('seed', seed); n = rj.get('n', n)
    if rc_c == 0 and cfg.get('bin'):
        hdir = os.path.join(ROOT, 'harness')
        tdir = os.path.join(ROOT, 'cache', 'target')
        if alt_repo:
            slot = re.sub(r'[^A-Za-z0-9_-]', '_', os.path.basename(os.path.realpath(alt_repo)))
            hdir = os.path.join(ROOT, 'cache', 'harness-' + slot); tdir = os.path.join(ROOT, 'cache', 'target-' + slot)
            sh(['rsync', '-a', '--delete', os.path.join(ROOT, 'harness') + '/', hdir + '/'])
            ct = open(os.path.join(hdir, 'Cargo.toml')).read().replace('path = "/repo"', f'path = "{os.path.realpath(alt_repo)}"')
            open(os.path.join(hdir, 'Cargo.toml'), 'w').write(ct)
            cc = open(os.path.join(hdir, '.cargo', 'config.toml')).read().replace('/verif/cache/target', tdir)
            open(os.path.join(hdir, '.cargo', 'config.toml'), 'w').write(cc)
        rc, out, dt = sh(['cargo', 'build', '--offline', '--bin', cfg['bin']], cwd=hdir, timeout=3400,
                         env=dict(os.environ, CARGO_NET_OFFLINE='true'))
        log.write(out)
        note(f'[{pid}] harness build {dt:.1f}s rc={rc}')
        if rc != 0:
            obligations.append(('harness builds against /repo', False, out[-1500:]))
            broken.append('harness build (API the correspondence drives no longer compiles)')
        else:
            # ---- (5) run the implementation
            exe = os.path.join(tdir, 'debug', cfg['bin'])
            cmd = [exe, '--seed', str(seed), '--n', str(n), '--out', work] + cfg.get('bin_args', []) + (cfg.get('thorough_args', []) if tier == 'thorough' else [])
            if replay and 'idx' in rj:
                cmd += ['--only', str(rj['idx'])]
            rc, out, dt = sh(cmd, cwd=work, timeout=cfg.get('run_timeout', 3000))
            log.write(out[-20000:])
            note(f'[{pid}] harness run {dt:.1f}s rc={rc}')
            if rc != 0:
                obligations.append(('harness run', False, out[-1500:]))
                broken.append('harness run failed: ' + out[-300:].replace('\n', ' | '))
            else:
                meta = json.load(open(os.path.join(work, 'meta.json')))
                evals = meta.get('evaluations', 0)
                for line in open(os.path.join(work, 'cases.jsonl')):
                    c = json.loads(line); cases[c['idx']] = c
                # ---- (6) model + oracle inside Coq
                shards = sorted(glob.glob(os.path.join(work, 'cases_*.v')))
                t0 = time.time()
                with ThreadPoolExecutor(max_workers=16) as ex:
                    for path, nums, err in ex.map(run_shard, shards):
                        if nums is None:
                            shard_errors.append((os.path.basename(path), err))
                        else:
                            flagged += nums
                note(f'[{pid}] coq evaluation of {len(shards)} shards {time.time()-t0:.1f}s; flagged={len(flagged)} errors={len(shard_errors)}')
                if shard_errors:
                    obligations.append(('case shards evaluate in Coq', False, shard_errors[0][1][-800:]))
                    broken.append('case shard failed to evaluate: ' + shard_errors[0][0])

    # ---- (7) decide
    known = load_known(pid)
    known_classes = {f['class']: f for f in known}
    violations = []       # property fails on the real code, not a known class
    corr_only = []        # model and implementation differ, property oracle fine
    known_hits = {}
    for num in flagged:
        idx, rest = divmod(num, 1000)
        kclass, code = divmod(rest, 10)
        if code & 2:
            if kclass and kclass in known_classes:
                known_hits.setdefault(kclass, []).append(idx)
            else:
                violations.append((idx, code))
        elif code & 1:
            corr_only.append((idx, code))
    obligations.append((f'correspondence model = implementation on {evals} cases', not corr_only and not shard_errors and evals > 0,
                        f'{len(corr_only)} cases differ' if corr_only else ''))
    if corr_only:
        broken.append(f'correspondence {cfg.get("corr_name", pid)}: model and implementation differ on {len(corr_only)} case(s), first idx {corr_only[0][0]}')

    exit_code = 0
    out_lines = []
    for f in known:
        hits = known_hits.get(f['class'], [])
        out_lines.append(f"KNOWN-FINDING: property={pid} {f['id']}: {f['what']} (re-confirmed on {len(hits)} case(s) this run)")

    def write_replay(kind, idx, extra):
        name = f'{pid}-{tier}-seed{seed}-{kind}{"" if idx is None else "-" + str(idx)}.json'
        path = os.path.join(ROOT, 'replay', name)
        body = {'property': pid, 'kind': kind, 'seed': seed, 'n': n, 'tier': tier,
                'how_to_replay': f'python3 tools/check.py {pid} --replay {path}'}
        if idx is not None:
            body['idx'] = idx
            body['case'] = cases.get(idx, {}).get('desc')
            body['tags'] = cases.get(idx, {}).get('tags')
        body.update(extra)
        json.dump(body, open(path, 'w'), indent=1)
        return path

    if violations:
        idx, code = sorted(violations)[0]
        path = write_replay('violation', idx, {'verdict_code': code, 'all_violating_idx': sorted(i for i, _ in violations)[:50],
                                               'meaning': 'the property oracle (Coq, extracted from the statement) fails on the implementation output for this input'})
        out_lines.append(f'VIOLATION property={pid} replay={path}')
        exit_code = 1
    elif broken:
        idx = corr_only[0][0] if corr_only else None
        path = write_replay('broken', idx, {'no_longer_checks': broken,
                                            'search': f'property oracle evaluated on {evals} implementation runs (seed {seed}); no input found on which the property itself fails'})
        out_lines.append(f'VIOLATION property={pid} replay={path} no-failing-input-found')
        exit_code = 1

    # ---- evidence
    keys = set()
    for c in cases.values():
        if c.get('nontrivial_key'):
            keys.add(hashlib.sha1(c['nontrivial_key'].encode()).hexdigest())
    samples = [cases[k]['desc'] for k in sorted(cases)[:3]]
    n_obl = len(obligations); n_dis = sum(1 for o in obligations if o[1])
    ev = {
        'property_id': pid, 'tier': tier, 'seed': seed, 'level': 'proof',
        'coverage': {
            'obligations': n_obl, 'discharged': n_dis,
            'obligation_list': [{'name': o[0], 'ok': o[1], **({'detail': o[2]} if o[2] else {})} for o in obligations],
            'checker_cmd': f'cd coq && ./mk.sh {" ".join(cfg["coq_targets"])}  (coqc 8.16.1 full .vo build) ; coqc audit.v (Print Assumptions) ; coqc cases_*.v (vm_compute)',
            'trusted_base': cfg.get('trusted_base', []) + [
                'Coq 8.16.1 kernel + vm_compute (no native_compute)',
                'axioms under the property theorems: ' + (json.dumps(thm_axioms) if thm_axioms else 'n/a'),
                'Rust harness harness/src/bin/%s.rs (generators, printers of inputs/outputs as Coq terms)' % cfg.get('bin', '-'),
                'tools/check.py (parsing of coqc output, decision)'],
            'theorems': theorems_of(cfg['props_file']),
            'evaluations': evals, 'distinct_nontrivial': len(keys),
            'rule': cfg.get('rule', ''),
            'samples': samples if samples else ['<no cases>'],
            'input_distribution': meta.get('distribution', {}),
            'traces_validated_against_impl': evals,
            'known_findings_reconfirmed': {str(k): len(v) for k, v in known_hits.items()},
            'exhaustive': bool(cfg.get('exhaustive', False)),
        },
        'assumptions': cfg.get('assumptions', []),
        'wall_s': round(time.time() - t_start, 2),
        'violations': len(violations) + (1 if (broken and not violations) else 0),
    }
    json.dump(ev, open(os.path.join(ROOT, 'evidence' + sfx, f'{pid}.json'), 'w'), indent=1)
    for l in out_lines:
        note(l)
    note(f'[{pid}] tier={tier} seed={seed} obligations {n_dis}/{n_obl} evaluations={evals} distinct_nontrivial={len(keys)} exit={exit_code} wall={time.time()-t_start:.1f}s')
    if alt_repo and cfg.get('gen'):
        # restore Gen/*.v to /repo's tables so the shared coq/ tree is not left in the mutant's state
        env = dict(os.environ); env.pop('VERIF_REPO', None)
        sh([sys.executable, os.path.join(ROOT, 'tools', 'translate.py')] + cfg['gen'], cwd=ROOT, env=env)
    if replay:
        for idx in sorted(cases):
            note('REPLAY case', idx, json.dumps(cases[idx]['desc'])[:4000])
    sys.exit(exit_code)


if __name__ == '__main__':
    main()
