#!/bin/sh
# usage: run_seed.sh PATCH Cxx [Cyy ...]  — apply PATCH to the scratch worktree ${SLOT:-/tmp/wt-alt} (at /repo HEAD) and run the checks there
PATCH=$1; shift
git -C ${SLOT:-/tmp/wt-alt} checkout -q -- . && git -C ${SLOT:-/tmp/wt-alt} clean -fdq && git -C ${SLOT:-/tmp/wt-alt} checkout -q --detach $(git -C /repo rev-parse HEAD) || exit 2
git -C ${SLOT:-/tmp/wt-alt} apply "$PATCH" || { echo "patch does not apply"; exit 2; }
for p in "$@"; do
  VERIF_REPO=${SLOT:-/tmp/wt-alt} timeout 3000 python3 /verif/tools/check.py $p 2>&1 | grep -E "VIOLATION|tier=" 
done
git -C ${SLOT:-/tmp/wt-alt} checkout -q -- .
