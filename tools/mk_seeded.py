#!/usr/bin/env python3
"""Assemble /verif/seeded/<name>/ from a seeder's output directory plus the coordinator's own
confirmation (tools/confirm_seeds.sh summary) and detection results (tools/run_seed.sh logs).
usage: mk_seeded.py NAME SEEDDIR PROPERTY CONFIRM_SUMMARY DETECTION_TEXT..."""
import sys, os, json, shutil, re
name, sdir, prop, confirm = sys.argv[1:5]
det = sys.argv[5:]
out = os.path.join('/verif/seeded', name)
os.makedirs(out, exist_ok=True)
shutil.copy(os.path.join(sdir, 'patch.diff'), os.path.join(out, 'patch.diff'))
shutil.copy(os.path.join(sdir, 'demo_test.rs'), os.path.join(out, 'demo_test.rs'))
meta = {}
mp = os.path.join(sdir, 'meta.json')
if os.path.exists(mp):
    meta = json.load(open(mp))
sid = os.path.basename(sdir.rstrip('/'))
conf_line = ''
suite_line = ''
if os.path.exists(confirm):
    for l in open(confirm):
        if l.startswith(sid + ' '):
            conf_line = l.strip()
        if l.startswith('suite_with_patches') and (' ' + sid + ' ') in l:
            suite_line = l.strip()
m = {
    'property': prop,
    'seed_id': sid,
    'what': meta.get('what', ''),
    'needs_to_manifest': meta.get('needs', ''),
    'seeder_ran': meta.get('ran', []),
    'coordinator_confirmed': {
        'how': 'tools/confirm_seeds.sh in a scratch worktree of /repo HEAD: demonstration placed under tests/, run without and with patch.diff; then the existing suite (cargo nextest, 3231 tests) with the patch applied (in a batch with other independent seeds; a lock-timing test that failed under load was re-run alone and passed)',
        'demo': conf_line,
        'suite': suite_line,
    },
    'detection': det,
}
json.dump(m, open(os.path.join(out, 'meta.json'), 'w'), indent=1)
print('wrote', out)
