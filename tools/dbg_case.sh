#!/bin/sh
# usage: dbg_case.sh DIR IDX CHECKMOD CTOR  — prints spec / engine-model / implementation for a Group A style case
DIR=$1; IDX=$2; MOD=$3; CTOR=$4
LINE=$(grep -h "^  ($IDX%N, " $DIR/cases_*.v | sed -e "s/^  ($IDX%N, //" -e 's/)[;]*$//')
cat > /tmp/dbg_$$.v <<EOT
From IL Require Import Checks.$MOD.
From Coq Require Import List NArith ZArith Bool.
Import ListNotations.
Open Scope list_scope.
Definition c := $LINE.
Eval vm_compute in (match c with $CTOR f p e i _ => (match perfect_model f p e with Some m => Some (get m 99) | None => None end, eval_engine f p e, i) end).
EOT
sed -i "s/$CTOR f p e i _ =>/$5 =>/" /tmp/dbg_$$.v
coqc -noglob -Q /verif/coq IL /tmp/dbg_$$.v | tr -s ' \n' ' '; echo; rm -f /tmp/dbg_$$.*
