#!/usr/bin/env python3
"""fsreplay.py — strace log -> data-directory states at every crash point (properties C13, C16).

Reads an `strace -f -xx -s BIG` log of a child process that ran a workload on a fresh data
directory (`--root`), replays every successful file-system mutation under that directory on a
small POSIX crash model, and materialises, for every crash point (every event boundary after the
`@@SETUP` marker) and every enumerated LOSS CHOICE, the directory tree a crash could leave behind.

Crash model (the assumption stated in DESIGN.md §6 / Model/FS.v):
  * file data is durable only after fsync/fdatasync of that file; un-synced data operations of one
    file (truncate, write) reach the disk in order, so a crash keeps a PREFIX of them, the last
    write possibly TORN at any byte;
  * link (file creation), unlink and rename are durable only after fsync of the directory; the
    pending operations of one directory reach the disk in order (a crash keeps a prefix of them);
    different files and different directories are independent;
  * mkdir/rmdir are durable at once; everything that exists at the `@@SETUP` marker is durable.

Output (`--out DIR`):
  DIR/index.json   {"events":[...], "points":[{"k":..,"acked":..,"states":[{"tree":id,"loss":{...}}]}],
                    "ntrees":n, "init":{dir:[[name,size],...]}, "warnings":[...]}
  DIR/trees/<id>/  one materialised data directory per DISTINCT tree (states share trees)
"""
import sys, os, re, json, argparse, hashlib, random

STR_RE = re.compile(r'"((?:\\x[0-9a-f]{2})*)"(\.\.\.)?')


def unhex(s):
    return bytes.fromhex(s.replace('\\x', ''))


class Inode:
    __slots__ = ('id', 'dur', 'pend', 'vol', 'home', 'idx')

    def __init__(self, iid, home, idx):
        self.id = iid; self.dur = b''; self.pend = []; self.vol = bytearray(); self.home = home; self.idx = idx


class Dir:
    __slots__ = ('dur', 'pend', 'nfiles')

    def __init__(self):
        self.dur = {}      # name -> ('f', ino_id) | ('d',)
        self.pend = []     # ('link', name, ino) | ('unlink', name) | ('rename', src, dst)
        self.nfiles = 0    # inodes created in this directory so far (model inode index)


def apply_dop(ents, op):
    if op[0] == 'link':
        ents[op[1]] = ('f', op[2])
    elif op[0] == 'unlink':
        ents.pop(op[1], None)
    elif op[0] == 'rename':
        if op[1] in ents:
            ents[op[2]] = ents.pop(op[1])
    return ents


class FS:
    def __init__(self, root):
        self.root = root
        self.inodes = {}
        self.dirs = {}          # relative dir path ('' = root) -> Dir
        self.next_ino = 0
        self.exists_root = False

    def rel(self, path):
        p = os.path.normpath(path)
        if p == self.root:
            return ''
        if p.startswith(self.root + '/'):
            return p[len(self.root) + 1:]
        return None

    def vol_ents(self, d):
        ents = dict(self.dirs[d].dur)
        for op in self.dirs[d].pend:
            apply_dop(ents, op)
        return ents

    def lookup(self, rel):
        d, n = os.path.split(rel)
        if d not in self.dirs:
            return None
        return self.vol_ents(d).get(n)

    def names_of(self, ino):
        out = []
        for d in self.dirs:
            for n, e in self.vol_ents(d).items():
                if e[0] == 'f' and e[1] == ino:
                    out.append(os.path.join(d, n))
        return sorted(out)


def parse_args_str(argstr):
    """split the top-level comma separated arguments of a syscall (strings may contain anything in \\x form)"""
    out, depth, cur, i, instr = [], 0, '', 0, False
    while i < len(argstr):
        c = argstr[i]
        if instr:
            cur += c
            if c == '"':
                instr = False
        elif c == '"':
            instr = True; cur += c
        elif c in '([{':
            depth += 1; cur += c
        elif c in ')]}':
            depth -= 1; cur += c
        elif c == ',' and depth == 0:
            out.append(cur.strip()); cur = ''
        else:
            cur += c
        i += 1
    if cur.strip():
        out.append(cur.strip())
    return out


def pstr(a, warnings):
    m = STR_RE.match(a)
    if not m:
        return None
    if m.group(2):
        warnings.append('truncated string argument in strace log (raise -s)')
    return unhex(m.group(1))


def main():
    ap = argparse.ArgumentParser()
    ap.add_argument('--log', required=True); ap.add_argument('--root', required=True)
    ap.add_argument('--marker', required=True); ap.add_argument('--out', required=True)
    ap.add_argument('--mode', default='full')       # full | events (no materialisation)
    ap.add_argument('--seed', type=int, default=1); ap.add_argument('--cap', type=int, default=64)
    ap.add_argument('--cwd', default=None)
    ap.add_argument('--no-coalesce', dest='coalesce', action='store_false', default=True)
    a = ap.parse_args()
    root = os.path.normpath(os.path.abspath(a.root))
    marker = os.path.normpath(os.path.abspath(a.marker))
    cwd = a.cwd or os.getcwd()
    rnd = random.Random(a.seed)
    fs = FS(root)
    warnings = []
    fds = {}            # fd -> dict(kind='file'|'dir'|'marker', ino=, off=, append=, path=)
    events = []         # abstract events after SETUP
    started = False
    acked = 0
    points = []         # (k, acked, snapshot)
    unfinished = {}     # pid -> partial line

    def abspath(p):
        p = p.decode('utf-8', 'replace')
        return os.path.normpath(p if p.startswith('/') else os.path.join(cwd, p))

    def snapshot():
        inos = {}
        for i, ino in fs.inodes.items():
            if ino.pend:
                inos[i] = (ino.dur, list(ino.pend))
            else:
                inos[i] = (ino.dur, [])
        dirs = {d: (dict(x.dur), list(x.pend)) for d, x in fs.dirs.items()}
        homes = {i: (ino.home, ino.idx) for i, ino in fs.inodes.items()}
        return (inos, dirs, homes)

    last_write = [None]

    def emit(ev):
        nonlocal events
        last_write[0] = None
        if started:
            events.append(ev)
            points.append((len(events), acked, snapshot()))

    def new_inode(d):
        ino = Inode(fs.next_ino, d, fs.dirs[d].nfiles)
        fs.dirs[d].nfiles += 1
        fs.next_ino += 1
        fs.inodes[ino.id] = ino
        return ino

    def do_open(path, flags, ret):
        ap_ = abspath(path)
        if ap_ == marker:
            fds[ret] = dict(kind='marker'); return
        rel = fs.rel(ap_)
        if rel is None:
            fds.pop(ret, None); return
        if 'O_DIRECTORY' in flags or rel in fs.dirs:
            fds[ret] = dict(kind='dir', path=rel); return
        d, n = os.path.split(rel)
        if d not in fs.dirs:
            warnings.append('open in unknown directory ' + rel); return
        ent = fs.lookup(rel)
        if ent is None:
            if 'O_CREAT' not in flags:
                warnings.append('successful open of unknown file ' + rel); return
            ino = new_inode(d)
            fs.dirs[d].pend.append(('link', n, ino.id))
            fds[ret] = dict(kind='file', ino=ino.id, off=0, append='O_APPEND' in flags)
            emit({'ev': 'create', 'path': rel, 'dir': d, 'idx': ino.idx, 'new': True})
        else:
            ino = fs.inodes[ent[1]]
            fds[ret] = dict(kind='file', ino=ino.id, off=0, append='O_APPEND' in flags)
            if 'O_TRUNC' in flags and ('O_WRONLY' in flags or 'O_RDWR' in flags):
                ino.pend.append(('t', 0)); ino.vol = bytearray()
                emit({'ev': 'create', 'path': rel, 'dir': ino.home, 'idx': ino.idx, 'new': False})

    def do_write(fd, data, off=None):
        f = fds.get(fd)
        if f is None:
            return
        if f['kind'] == 'marker':
            nonlocal started, acked
            for line in data.decode('utf-8', 'replace').split('\n'):
                if not line.startswith('@@'):
                    continue
                txt = line[2:]
                if txt == 'SETUP':
                    # everything that exists now is durable
                    for ino in fs.inodes.values():
                        ino.dur = bytes(ino.vol); ino.pend = []
                    for d, x in fs.dirs.items():
                        x.dur = fs.vol_ents(d); x.pend = []
                    # renumber existing files per directory (model inode indices) in name order
                    for d, x in fs.dirs.items():
                        names = sorted(n for n, e in x.dur.items() if e[0] == 'f')
                        for i, n in enumerate(names):
                            ino = fs.inodes[x.dur[n][1]]; ino.home = d; ino.idx = i
                        x.nfiles = len(names)
                    started = True
                    points.append((0, 0, snapshot()))
                elif started:
                    if txt.startswith('ACK'):
                        acked += 1
                    emit({'ev': 'mark', 'text': txt})
            return
        if f['kind'] != 'file':
            return
        ino = fs.inodes[f['ino']]
        if off is None:
            pos = len(ino.vol) if f['append'] else f['off']
        else:
            pos = off
        nonappend = pos != len(ino.vol)
        if pos > len(ino.vol):
            ino.vol.extend(b'\0' * (pos - len(ino.vol)))
        ino.vol[pos:pos + len(data)] = data
        if off is None:
            f['off'] = pos + len(data)
        # consecutive appends to one file with nothing in between are ONE event (serde_json's to_writer
        # issues dozens of tiny writes); the boundaries in between stay reachable as torn lengths
        if (started and a.coalesce and last_write[0] == ino.id and events and events[-1].get('ev') == 'write'
                and ino.pend and ino.pend[-1][0] == 'w' and ino.pend[-1][1] + len(ino.pend[-1][2]) == pos):
            prev = ino.pend[-1]
            ino.pend[-1] = ('w', prev[1], prev[2] + bytes(data), prev[3] + [len(prev[2])])
            events[-1]['len'] += len(data)
            events[-1]['syscalls'] = events[-1].get('syscalls', 1) + 1
            points[-1] = (len(events), acked, snapshot())
            return
        ino.pend.append(('w', pos, bytes(data), []))
        names = fs.names_of(ino.id)
        ev = {'ev': 'write', 'path': names[0] if names else '<anon>', 'dir': ino.home, 'idx': ino.idx, 'len': len(data)}
        if nonappend:
            ev['nonappend'] = True
        emit(ev)
        if started:
            last_write[0] = ino.id

    def do_fsync(fd):
        f = fds.get(fd)
        if f is None:
            return
        if f['kind'] == 'file':
            ino = fs.inodes[f['ino']]
            ino.dur = bytes(ino.vol); ino.pend = []
            names = fs.names_of(ino.id)
            emit({'ev': 'fsync', 'path': names[0] if names else '<anon>', 'dir': ino.home, 'idx': ino.idx})
        elif f['kind'] == 'dir':
            d = f['path']
            if d in fs.dirs:
                fs.dirs[d].dur = fs.vol_ents(d); fs.dirs[d].pend = []
                emit({'ev': 'fsyncdir', 'path': d})

    def do_rename(src, dst):
        s, t = fs.rel(abspath(src)), fs.rel(abspath(dst))
        if s is None or t is None:
            if s is not None or t is not None:
                warnings.append('rename across the data directory boundary')
            return
        sd, sn = os.path.split(s); td, tn = os.path.split(t)
        if s in fs.dirs:
            warnings.append('directory rename not modelled: ' + s); return
        if sd != td:
            warnings.append('cross-directory rename not modelled: %s -> %s' % (s, t)); return
        fs.dirs[sd].pend.append(('rename', sn, tn))
        emit({'ev': 'rename', 'path': s, 'to': t, 'dir': sd})

    def do_unlink(path):
        r = fs.rel(abspath(path))
        if r is None:
            return
        d, n = os.path.split(r)
        if d in fs.dirs:
            fs.dirs[d].pend.append(('unlink', n))
            emit({'ev': 'unlink', 'path': r, 'dir': d})

    def do_mkdir(path):
        r = fs.rel(abspath(path))
        if r is None:
            return
        fs.dirs[r] = Dir()
        if r != '':
            d, n = os.path.split(r)
            if d in fs.dirs:
                fs.dirs[d].dur[n] = ('d',)
        emit({'ev': 'mkdir', 'path': r})

    def do_rmdir(path):
        r = fs.rel(abspath(path))
        if r is None or r not in fs.dirs:
            return
        del fs.dirs[r]
        d, n = os.path.split(r)
        if d in fs.dirs:
            fs.dirs[d].dur.pop(n, None)
            fs.dirs[d].pend = [op for op in fs.dirs[d].pend if op[1] != n]
        emit({'ev': 'rmdir', 'path': r})

    line_re = re.compile(r'^(\d+)\s+(.*)$')
    call_re = re.compile(r'^(\w+)\((.*)\)\s+=\s+(-?\d+|\?)(.*)$', re.S)
    for raw in open(a.log, errors='replace'):
        m = line_re.match(raw.rstrip('\n'))
        if not m:
            continue
        pid, rest = m.group(1), m.group(2)
        if rest.endswith('<unfinished ...>'):
            unfinished[pid] = rest[:-len('<unfinished ...>')]
            continue
        mr = re.match(r'^<\.\.\. (\w+) resumed>(.*)$', rest, re.S)
        if mr:
            rest = unfinished.pop(pid, mr.group(1) + '(') + mr.group(2)
        mc = call_re.match(rest)
        if not mc:
            continue
        name, argstr, ret = mc.group(1), mc.group(2), mc.group(3)
        if ret == '?' or int(ret) < 0:
            continue
        ret = int(ret)
        args = parse_args_str(argstr)
        try:
            if name == 'openat':
                p = pstr(args[1], warnings)
                if p is not None:
                    do_open(p, args[2], ret)
            elif name in ('open', 'creat'):
                p = pstr(args[0], warnings)
                if p is not None:
                    do_open(p, args[1] if name == 'open' else 'O_CREAT|O_WRONLY|O_TRUNC', ret)
            elif name == 'write':
                fd = int(args[0])
                if fd in fds:
                    data = pstr(args[1], warnings)
                    do_write(fd, data[:ret])
            elif name == 'pwrite64':
                fd = int(args[0])
                if fd in fds:
                    data = pstr(args[1], warnings)
                    do_write(fd, data[:ret], off=int(args[3]))
            elif name in ('writev', 'pwritev', 'pwritev2'):
                fd = int(args[0])
                if fd in fds and fds[fd]['kind'] == 'file':
                    warnings.append('writev on a data file is not modelled')
            elif name == 'lseek':
                fd = int(args[0])
                if fd in fds and fds[fd]['kind'] == 'file':
                    fds[fd]['off'] = ret
            elif name in ('fsync', 'fdatasync'):
                do_fsync(int(args[0]))
            elif name == 'ftruncate':
                fd = int(args[0])
                f = fds.get(fd)
                if f and f['kind'] == 'file':
                    ino = fs.inodes[f['ino']]; ln = int(args[1])
                    ino.pend.append(('t', ln))
                    if ln <= len(ino.vol):
                        del ino.vol[ln:]
                    else:
                        ino.vol.extend(b'\0' * (ln - len(ino.vol)))
                    names = fs.names_of(ino.id)
                    emit({'ev': 'truncate', 'path': names[0] if names else '<anon>', 'dir': ino.home, 'idx': ino.idx, 'len': ln})
            elif name == 'close':
                fds.pop(int(args[0]), None)
            elif name in ('dup', 'dup2', 'dup3'):
                if int(args[0]) in fds:
                    fds[ret] = fds[int(args[0])]
            elif name == 'fcntl':
                if len(args) > 1 and args[1].startswith('F_DUPFD') and int(args[0]) in fds:
                    fds[ret] = fds[int(args[0])]
            elif name == 'rename':
                do_rename(pstr(args[0], warnings), pstr(args[1], warnings))
            elif name in ('renameat', 'renameat2'):
                do_rename(pstr(args[1], warnings), pstr(args[3], warnings))
            elif name == 'unlink':
                do_unlink(pstr(args[0], warnings))
            elif name == 'unlinkat':
                if 'AT_REMOVEDIR' in (args[2] if len(args) > 2 else ''):
                    do_rmdir(pstr(args[1], warnings))
                else:
                    # relative to a directory fd: resolve through our fd table
                    p = pstr(args[1], warnings)
                    if args[0] != 'AT_FDCWD' and not p.startswith(b'/'):
                        f = fds.get(int(args[0]))
                        if f and f['kind'] == 'dir':
                            p = os.path.join(root, f['path'], p.decode()).encode()
                    do_unlink(p)
            elif name == 'rmdir':
                do_rmdir(pstr(args[0], warnings))
            elif name == 'mkdir':
                do_mkdir(pstr(args[0], warnings))
            elif name == 'mkdirat':
                do_mkdir(pstr(args[1], warnings))
            elif name in ('link', 'linkat', 'symlink', 'symlinkat', 'truncate'):
                p = pstr(args[0], warnings)
                if p is not None and fs.rel(abspath(p)) is not None:
                    warnings.append(name + ' under the data directory is not modelled')
        except Exception as e:  # noqa
            warnings.append('replayer error on %s: %r' % (name, e))

    if not started:
        print('no @@SETUP marker found in the trace', file=sys.stderr)
        sys.exit(3)

    os.makedirs(os.path.join(a.out, 'trees'), exist_ok=True)
    tree_ids = {}

    def content_of(dur, pend, n, t):
        buf = bytearray(dur)
        for op in pend[:n]:
            if op[0] == 't':
                ln = op[1]
                if ln <= len(buf):
                    del buf[ln:]
                else:
                    buf.extend(b'\0' * (ln - len(buf)))
            else:
                pos, data = op[1], op[2]
                if pos > len(buf):
                    buf.extend(b'\0' * (pos - len(buf)))
                buf[pos:pos + len(data)] = data
        if n < len(pend) and pend[n][0] == 'w' and t > 0:
            pos, data = pend[n][1], pend[n][2][:t]
            if pos > len(buf):
                buf.extend(b'\0' * (pos - len(buf)))
            buf[pos:pos + len(data)] = data
        return bytes(buf)

    def materialise(snap, ichoice, dchoice):
        inos, dirs, _ = snap
        files = {}   # relpath -> bytes ; directories as relpath + '/'
        for d, (dur, pend) in dirs.items():
            ents = dict(dur)
            for op in pend[:dchoice.get(d, len(pend))]:
                apply_dop(ents, op)
            if d != '':
                files[d + '/'] = None
            for n, e in ents.items():
                if e[0] == 'f':
                    idur, ipend = inos[e[1]]
                    nn, tt = ichoice.get(e[1], (len(ipend), 0))
                    files[os.path.join(d, n)] = content_of(idur, ipend, nn, tt)
        h = hashlib.sha1()
        for k in sorted(files):
            h.update(k.encode()); h.update(b'\0')
            if files[k] is not None:
                h.update(hashlib.sha1(files[k]).digest())
        key = h.hexdigest()
        if key not in tree_ids:
            tid = len(tree_ids)
            tree_ids[key] = tid
            if a.mode == 'full':
                base = os.path.join(a.out, 'trees', str(tid))
                os.makedirs(base, exist_ok=True)
                for k in sorted(files):
                    p = os.path.join(base, k)
                    if files[k] is None:
                        os.makedirs(p, exist_ok=True)
                    else:
                        os.makedirs(os.path.dirname(p), exist_ok=True)
                        with open(p, 'wb') as fh:
                            fh.write(files[k])
        return tree_ids[key]

    def complete_records(pend, n, t):
        # newline-terminated records of the torn write that survive intact (a last record that only
        # lacks its newline still counts: line readers accept it)
        if n >= len(pend) or pend[n][0] != 'w' or t <= 0:
            return 0
        data = pend[n][2]
        full = data.split(b'\n')
        if full and full[-1] == b'':
            full = full[:-1]
        pref = data[:t].split(b'\n')
        return sum(1 for i, l in enumerate(pref) if i < len(full) and l and l == full[i])

    out_points = []
    nstates = 0
    for (k, ack, snap) in points:
        inos, dirs, homes = snap
        pin = sorted(i for i, (_, p) in inos.items() if p)
        pdir = sorted(d for d, (_, p) in dirs.items() if p)
        # per-item options
        iopts = []
        for i in pin:
            pend = inos[i][1]
            opts = []
            for n in range(len(pend) + 1):
                opts.append((n, 0, 'none'))
                if n < len(pend) and pend[n][0] == 'w':
                    L = len(pend[n][2])
                    seen = set()
                    cand = [(1, 'first'), (L // 2, 'mid'), (L - 1, 'last')]
                    parts = pend[n][3] if len(pend[n]) > 3 else []
                    if parts:
                        cand.append((parts[len(parts) // 2], 'mid'))
                    # record boundaries (newline-terminated records, e.g. WAL lines): after the first record
                    nlpos = pend[n][2].find(b'\n')
                    if 0 <= nlpos < L - 1:
                        cand.append((nlpos + 1, 'rec'))
                    for t, cls in cand:
                        if 0 < t < L and t not in seen:
                            seen.add(t); opts.append((n, t, cls))
            iopts.append(opts)
        dopts = [list(range(len(dirs[d][1]) + 1)) for d in pdir]
        total = 1
        for o in iopts + dopts:
            total *= len(o)
        choices = []
        if total <= a.cap:
            def rec(j, cur):
                if j == len(iopts) + len(dopts):
                    choices.append(list(cur)); return
                for o in (iopts + dopts)[j]:
                    cur.append(o); rec(j + 1, cur); cur.pop()
            rec(0, [])
        else:
            allo = iopts + dopts
            choices.append([o[-1] for o in allo])       # nothing lost
            choices.append([o[0] for o in allo])        # everything un-synced lost
            for j in range(len(allo)):                  # vary one item, others kept / others lost
                for o in allo[j]:
                    c = [x[-1] for x in allo]; c[j] = o; choices.append(c)
                    c = [x[0] for x in allo]; c[j] = o; choices.append(c)
            while len(choices) < a.cap:
                choices.append([rnd.choice(o) for o in allo])
            seen = set(); uniq = []
            for c in choices:
                key = repr(c)
                if key not in seen:
                    seen.add(key); uniq.append(c)
            choices = uniq[:max(a.cap, 2)]
        states = []
        for c in choices:
            ich = {pin[j]: (c[j][0], c[j][1]) for j in range(len(pin))}
            dch = {pdir[j]: c[len(pin) + j] for j in range(len(pdir))}
            tid = materialise(snap, ich, dch)
            loss = {
                'inodes': [{'dir': homes[pin[j]][0], 'idx': homes[pin[j]][1], 'n': c[j][0], 't': c[j][1], 'cls': c[j][2],
                            'npend': len(inos[pin[j]][1]),
                            'trec': complete_records(inos[pin[j]][1], c[j][0], c[j][1])}
                           for j in range(len(pin))],
                'dirs': [{'dir': pdir[j], 'n': c[len(pin) + j], 'npend': len(dirs[pdir[j]][1])} for j in range(len(pdir))],
            }
            states.append({'tree': tid, 'loss': loss})
            nstates += 1
        out_points.append({'k': k, 'acked': ack, 'states': states})

    init = {}
    if points:
        inos, dirs, homes = points[0][2]
        for d, (dur, _) in dirs.items():
            init[d] = sorted([n, len(inos[e[1]][0])] for n, e in dur.items() if e[0] == 'f')
    json.dump({'events': events, 'points': out_points, 'ntrees': len(tree_ids), 'nstates': nstates,
               'init': init, 'warnings': sorted(set(warnings))},
              open(os.path.join(a.out, 'index.json'), 'w'))


if __name__ == '__main__':
    main()
