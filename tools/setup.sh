#!/bin/sh
# MANIFEST.setup_cmd: build everything from files on disk, offline. A target that does not build is
# reported but does not stop the others (its own check will then report the broken obligation).
cd "$(dirname "$0")/.."
mkdir -p cache work evidence replay
export CARGO_NET_OFFLINE=true
python3 tools/translate.py all || echo "setup: translator reported a failure"
( cd coq && ./mk.sh -k ) || echo "setup: some Coq targets failed"
( cd harness && cargo build --offline --bins --keep-going 2>&1 | tail -5 ) || echo "setup: some harness binaries failed"
echo setup-ok
