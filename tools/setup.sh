#!/bin/sh
# MANIFEST.setup_cmd: build everything from files on disk, offline.
set -e
cd "$(dirname "$0")/.."
mkdir -p cache work evidence replay
export CARGO_NET_OFFLINE=true
python3 tools/translate.py all
( cd coq && ./mk.sh )
( cd harness && cargo build --offline --bins )
echo setup-ok
