#!/usr/bin/env python3
"""Writes /verif/MANIFEST.json from tools/props.py (one check per claimed property)."""
import json, os, sys, subprocess
ROOT = os.path.dirname(os.path.dirname(os.path.abspath(__file__)))
sys.path.insert(0, os.path.join(ROOT, 'tools'))
from props import PROPS, NOT_APPLICABLE, HOOK_COMMITS, CLAIMED

all_ids = [json.loads(l)['id'] for l in open(os.path.join(ROOT, 'properties.jsonl'))]
checks = []
for pid in all_ids:
    if pid not in PROPS or pid not in CLAIMED:
        continue
    c = PROPS[pid]
    checks.append({
        'property_id': pid,
        'quick_cmd': f'python3 tools/check.py {pid} --tier quick',
        'thorough_cmd': f'python3 tools/check.py {pid} --tier thorough',
        'evidence_file': f'/verif/evidence/{pid}.json',
        'replay_cmd_template': f'python3 tools/check.py {pid} --replay {{path}}',
        'engine': 'coq-proof+correspondence',
        'level_claimed': {'category': 'proof', 'text': c['level_text'], 'design_ref': c.get('design_ref', 'DESIGN.md §8 ' + pid)},
        'level_note': c['level_note'],
        'technique': c.get('technique', 'Coq 8.16 theorem over an executable Gallina model + per-run differential correspondence (vm_compute) against the Rust implementation'),
    })
na = [{'property_id': p, 'reason': NOT_APPLICABLE.get(p, 'check not built yet in this session (no technique switch; see DESIGN.md §10)')} for p in all_ids if p not in PROPS or p not in CLAIMED]
m = {
    'version': 1,
    'setup_cmd': 'sh tools/setup.sh',
    'hooks': {
        'guard': 'cfg(inputlayer_verif)',
        'enable': 'RUSTFLAGS="--cfg inputlayer_verif" (set in /verif/harness/.cargo/config.toml; the harness crate depends on /repo by path)',
        'baseline_off_cmd': 'cd /repo && cargo nextest run --workspace --no-fail-fast --tool-config-file pb:/w/lib/nextest.toml --profile pb --test-threads 8 --offline',
        'source_commits': HOOK_COMMITS,
        'add_only': True,
    },
    'engines': [{'name': 'coq-proof+correspondence', 'path': 'tools/check.py', 'serves_properties': [c['property_id'] for c in checks],
                 'kind_free_text': 'Coq 8.16.1 proofs over executable Gallina models (coq/), translator-regenerated tables (tools/translate.py), Rust harness (harness/) driving the real code, vm_compute correspondence + oracle'}],
    'checks': checks,
    'not_applicable': na,
    'notes': 'All checks: python3 tools/check.py Cxx --tier quick|thorough; known findings in KNOWN_FINDINGS.json; design in DESIGN.md.',
}
json.dump(m, open(os.path.join(ROOT, 'MANIFEST.json'), 'w'), indent=1)
print('checks:', len(checks), 'not claimed:', len(na))
