CFG = dict(
    props_file='Props/C21.v',
    coq_targets=['Checks/C21.vo', 'Props/C21.vo'],
    level_text='Theorem C21_checker_decides_valid_proof: for EVERY program, database, model and proof tree the boolean checker check_proof accepts '
               'exactly the trees that satisfy the specification valid_proof (root concludes the tuple; a Rule node names a real clause whose head under '
               'the bindings is the conclusion, whose positive body atoms under the bindings are the children\'s conclusions in order and whose comparisons '
               'hold; a Fact leaf is a stored fact; a Negation leaf names the negated atom under the bindings and matches no fact of the perfect model). '
               'Structural induction over trees / mutual induction over derivations, no bound. The implementation is tied to it by translation validation: '
               'every tree returned by Handler `.why` and by build_proof_tree (with and without derived data, depth limits 1..50) for every answer of '
               'generated programs is unfolded from its DAG and run through this proved checker inside Coq, against a reference perfect model computed '
               'inside Coq by a fuel-bounded layered bottom-up evaluator.',
    level_note='The backward chainer itself is not modelled (no C21_sound about an algorithm model): the theorem is about the validator, the per-run check is '
               'about the implementation\'s actual output. Trusted: Coq kernel, the harness (DAG unfolding, printing of rules/values/bindings/patterns as Coq '
               'terms, parsing of the printed negation pattern), the reference evaluator (its result is checked to be closed under every clause and the '
               'program to be layered and safe on every case). Int32/Int64 are identified (values_equal does).',
    technique='Coq proof of a proof-tree validator (sound and complete w.r.t. the inductive specification) + translation validation of every tree the real code returns',
    bin='c21', n_quick=220, n_thorough=4000,
    corr_name='Model/ProvChain.v (build_proof_tree model) vs build_proof_tree on the library paths; harness derived data vs Coq reference model',
    rule='hand-written corpus (chain, transitive closure on a path and on cycles, negation over base and over derived relations with an alternative clause, '
         'comparison/negation before the binding atom, greedy join, diamond with constants and strings, repeated variables) then random layered programs: '
         '<= 5 relations, <= 6 clauses, arity <= 3, 0-8 stored tuples per base relation over a 4-value domain (ints, or ints and strings); shapes chain / join / '
         'diamond / self-recursion / negation over base and derived relations / comparisons / shuffled bodies / constants and repeated variables. Each program is '
         'run on one of three paths: 0 Handler `.why ?r(..)` for every derived relation, 1 build_proof_tree with the model as derived data, 2 build_proof_tree '
         'without derived data; paths 1,2 with max_depth in {1,2,3,4,6,50}. Non-trivial = some returned tree has depth >= 2; distinct by program text, path and limit. '
         'Programs the system refuses (at registration or at the first query) are counted and skipped; on path 0 a case whose engine-derived data differs from the '
         'reference model is out of scope (C01).',
    trusted_base=['no hooks; public API: Handler::query_program, StorageEngine::get_rules_and_data / execute_and_get_context, build_proof_tree, ProofContext',
                  'rule order on path 0 is whatever the rule catalog returns (HashMap + topological sort): outputs, not inputs, may differ between runs'],
    assumptions=['programs are in the layered fragment (positive dependencies on relations <= head, negative on relations < head), checked per case',
                 'derived relations have no stored facts of their own'],
)
