CFG = dict(
    props_file='Props/C11.v',
    coq_targets=['Checks/C11.vo', 'Props/C11.vo'],
    level_text='Theorem C11_restart holds for EVERY history (any length, any tuples) of inserts (re-inserts, in-batch duplicates), deletes '
               '(absent deletes), rejected operations, saves, compactions and restarts: what recovery rebuilds from the persisted log equals, as a '
               'set, the relation being served (induction over the history; invariant: a tuple is live iff the updates at its latest logical time '
               'sum to a positive diff, every logged time is below the clock, every (tuple,time) key has a non-zero sum; consolidation preserves '
               'per-key sums). C11_sum_recovery_refuted_* show the pinned tree\'s sum-of-diffs recovery violated the statement (repaired by a fix: '
               'commit). The model is tied to the code on every run by executing histories on a real StorageEngine (temp dir) and comparing every '
               'report and the relation contents after every step, and across every restart, with the model inside Coq.',
    level_note='Trusted: Coq kernel, harness printers. The log is modelled as one list of (data,time,diff) per shard (WAL/buffer/batch split is '
               'C14\'s refinement); consolidate is modelled by per-key sums, independent of the sort order used by the code. The Gallina model is '
               'hand-written; its agreement with the Rust code is checked by correspondence, not proved.',
    bin='c11', n_quick=300, n_thorough=1500,
    corr_name='Model/Store.v vs StorageEngine (insert/delete/save/compact/restart)',
    rule='corpus (the once-failing shapes [ins x; ins x; del x], [del x; ins x], in-batch duplicate, with compaction/restart in between, buffer sizes '
         '{1,2,10000}); exhaustive histories over {ins x, ins y, del x, del y, compact, restart} up to length 2 (quick) / 5 (thorough) followed by a '
         'restart; random histories (length 1-30, 2-4 tuples of 4 kinds/arities, batches with duplicates, buffer_size in {1,2,3,10000}, save/compact/'
         'restart interleaved) plus a malformed stream (empty batches, mixed-arity batches, wrong-arity inserts). '
         'non-trivial = the history is NOT effective (it re-inserts a present tuple, repeats a tuple inside a batch or deletes an absent tuple); '
         'distinct by (buffer size, tuple kind, full op list)',
    trusted_base=['FilePersist internals (WAL JSON lines, Parquet batches) are exercised through StorageEngine, not modelled byte-for-byte',
                  'logical times are not observable through the public API; the model only uses that each logged operation gets a fresh, larger time'],
    assumptions=['clean restart = drop the engine and reopen the same data_dir (durability mode Immediate, the default)',
                 'operations are sequential (one writer); concurrent writers are C15'],
)
