CFG = dict(
    props_file='Props/C19.v',
    coq_targets=['Checks/C19.vo', 'Props/C19.vo'],
    level_text='C19_mirror_conc / C19_mirror_seq / C19_no_operation_fails hold for ALL client programs (any number of writers and consistent '
               'readers; inserts and deletes with duplicates, in-batch duplicates and absent deletes) and ALL schedules of the atomic '
               "sections: the worker never dies, the per-tuple sum of the diffs sent to the dataflow is 1 for every tuple of the engine's "
               'relations and 0 otherwise, the snapshot is the engine state, every completed consistent read returns exactly the tuples of the '
               'relation in the snapshot it was taken against, and no operation fails (global invariant over run_sched). '
               'C19_refuted_late_writer: the pinned tree violates it (worker panic), replayed on the real code and repaired by a fix: commit. '
               'Tie: sequential histories and enumerated / random interleavings of writers and readers at the sched_point hooks on a KG with '
               'incremental maintenance enabled; each executed schedule is replayed in the model inside Coq and every read is compared with '
               'the snapshot taken under the same lock.',
    level_note='Schedule property, partial by nature: atomic sections = spans between sched_point hooks. Differential dataflow / timely are '
               'NOT modelled: the arrangement is the per-tuple sum of the diffs sent, read completely after the sessions have been advanced '
               'past every sent update; that abstraction is validated by the per-run correspondence only. Panics of the worker thread are a '
               'runtime behaviour the model only represents as a dead flag. Not expressible: interleavings inside a lock scope, weak memory, '
               'crossbeam channel / parking_lot correctness; direct unsynchronised use of IncrementalEngine (without the KG lock) is out of scope.',
    bin='c19', n_quick=1000, n_thorough=5000,
    corr_name='Model/ConcInc.v vs StorageEngine writes + IncrementalEngine::read_relation_consistent under the schedule controller',
    rule='3 hand-written configurations (sequential duplicates/absent deletes; two writers vs a reader: enumerated; writer+read vs '
         'writer: sampled) + random sequential histories (one thread, 4-12 ops over 2 relations and 4 tuple ids with reads) + random '
         'configurations of 2-3 threads x 1-2 ops with at least one reader thread (enumerated when <= 30 interleavings, else 30 random '
         'schedules); one case = one executed schedule; non-trivial = a read returned a non-empty relation and (sequential or the schedule '
         'switches threads at least twice); distinct by programs + schedule text',
    trusted_base=['hooks: src/verif_hooks.rs sched_point + call sites in storage_engine/mod.rs and incremental.rs (cfg inputlayer_verif)',
                  'schedule controller harness/src/conc_ctl.rs; enabledness table (a reader parked inside read_relation_consistent holds the KG read lock)',
                  'differential-dataflow / timely (arrangement = sum of sent diffs below the frontier)',
                  'tuples and relations interned to numbers'],
    assumptions=['atomic sections of the model = spans between sched_point hooks',
                 'IncrementalEngine is used through StorageEngine (reads under the KG read lock, shadow writes under the KG write lock)',
                 'sequentially consistent memory'],
)
