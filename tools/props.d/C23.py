CFG = dict(
    props_file='Props/C23.v',
    coq_targets=['Checks/C23.vo', 'Props/C23.vo'],
    level_text='Theorems about the executable model `explain` of explain_why_not, for EVERY program, data and target tuple (induction over the clause body, no bound): '
               'C23_reported_blockers_hold (every blocker the trace reports is a true statement about the clause, the target and the perfect model, for clauses whose '
               'comparisons/negations only use variables bound earlier), C23_unblocked_clause_derives (a clause reported as not blocked really derives the tuple, so a tuple '
               'no clause derives gets a blocker for every clause), C23_derives_decides (the oracle`s boolean one-step derivability is the declarative one), and the '
               'property itself outside the known class, C23_truthful_outside_greedy_class: whenever the greedy trace never had a choice (clause_det) or the tuple is not '
               'derived, why_not_truthful holds for the whole report. The full statement is refuted for the faithful model by C23_refuted_greedy (witness computed by '
               'vm_compute, replayed on the real code by the corpus). The model is tied to the code on every run: the per-clause blockers of explain_why_not (library call, '
               'identical context) must equal the model`s, and the oracle why_not_truthful is evaluated on the implementation`s own blockers (library and Handler .why_not) '
               'against a reference perfect model computed inside Coq.',
    level_note='Known classes (findings): 1 greedy first-match trace on a derived tuple with a choice point; 2 a comparison/negation before its binding atom. '
               'Trusted: Coq kernel, the harness printers and its parsing of the printed blocker texts, the reference evaluator (checked closed/layered/safe per case). '
               'The Gallina model is hand-written; its agreement with the Rust code is checked by correspondence, not proved.',
    technique='Coq proof about an executable model of explain_why_not + per-run differential correspondence and semantic oracle',
    bin='c23', n_quick=120, n_thorough=600,
    corr_name='Model/ProvWhyNot.v explain vs explain_why_not (per-clause blockers)',
    rule='same generator and corpus as C21; for every derived relation ALL candidate tuples over the 4-value domain (library path with the model as derived data) or a '
         'sample of 10 (Handler `.why_not`); non-trivial = some clause reports an atom/comparison/negation blocker; distinct by program text and path',
    trusted_base=['no hooks; public API: Handler::query_program, explain_why_not, ProofContext', 'harness parses the printed blocker texts (patterns, resolved comparison sides)'],
    assumptions=['programs are in the layered fragment, checked per case'],
)
