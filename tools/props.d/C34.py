CFG = dict(
    props_file='Props/C34.v',
    coq_targets=['Checks/C34.vo', 'Props/C34.vo'],
    bin='groupa', bin_args=['c34'], n_quick=300, n_thorough=3000, thorough_args=[],
    level_text="C34_stratifiable_accepted: every rule set that has a stratification (textbook level assignment) passes the acceptance check (negative dependency inside a dependency cycle), for all programs; C34_relaxation_is_stratification: the evaluator's own stratification (hypothesis of C01) is a textbook stratification. Partial: the converse is validated per case. Oracle: every generated signed dependency graph goes through three acceptance paths (one engine program, the catalog validator, and the handler with a random persistent/session split); each must accept exactly the rule sets without a negative cycle.",
    level_note='Trusted: Coq kernel; hand-written Gallina model of clause semantics and of the engine strategy (Model/Datalog.v) — IRBuilder, the optimizer passes and Differential Dataflow are validated by the correspondence, not derived; harness printers.',
    corr_name='neg_cycle / accepts vs engine, validate_rules_stratification, Handler',
    rule='random signed dependency graphs over 1-5 predicates, 1-6 safe rules, 40% negative edges, random split into persistent prefix / session rules; distinct by rule text + split; all non-trivial',
    trusted_base=['IQLEngine public API (with_config, add_tuples, set_max_result_rows, execute_tuples)', 'Handler::query_program / validate_rules_stratification for C34'],
    assumptions=['values in generated programs are Int64 and strings; comparisons other than =/!= only between integers'],
)
