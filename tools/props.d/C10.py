CFG = dict(
    props_file='Props/C10.v',
    coq_targets=['Checks/C10.vo', 'Props/C10.vo'],
    level_text='Over EVERY schedule of atomic handler steps (any number of sessions, any length, any interleaving; persistent inserts/deletes/rule '
               'registrations/drops, session facts/retracts/rules/clear/drop-rules, session and session-less queries): C10_persistent_frame — persistent '
               'facts, persistent rules and session-less answers equal those of the persistent operations alone; C10_session_view — the answers of a '
               'session equal those of the schedule with every other session\'s session-local operation erased; C10_own_state — a session\'s ephemeral '
               'state depends on its own operations only; C10_query_is_union — a session query is the reference evaluation of (persistent facts ∪ own '
               'facts) under (persistent rules ++ own rules). Proved by a frame lemma per step and a simulation (Proofs/Session.v view_sim). The first '
               'two need `no_session_schema`: C10_refuted_session_schema is the machine-checked counterexample (a transient schema declaration lands in '
               'the KG-wide catalog), reproduced on the real Handler.',
    level_note='PARTIAL BY NATURE below handler granularity: the theorems quantify over all interleavings of whole handler calls; what happens inside a '
               'call (snapshot load vs. session-state reads, parking_lot/ArcSwap/tokio) is not modelled. The tie explores it: every interleaving of small '
               'per-session operation lists is run sequentially on the real Handler (exhaustive at call granularity), and free-running multi-threaded '
               'executions must admit a linearisation (Wing–Gong search in the harness over the overlapping calls; the chosen order is re-judged in Coq). '
               'That part is bounded exploration. The Gallina model is hand-written; agreement with the Rust code is checked per run, not proved. '
               'Catalog/validator verdicts for rule registrations are inputs of the model.',
    bin='c10', n_quick=420, n_thorough=6000,
    technique='Coq proof (frame lemmas + simulation over schedules) + differential correspondence on enumerated interleavings and linearised concurrent runs',
    corr_name='Model/Session.v (hstep) vs Handler::execute_program / query_program_with_session',
    rule='4 hand-written schedules (known finding; the repaired duplicate-fact defect; two clients under one persistent rule; session rules with '
         'persistent heads, negation, recursion, drops) then blocks: ALL 90 interleavings of three 2-operation lists (3 sessions, or 2 sessions + a '
         'session-less writer; ephemeral facts/retracts/rules/clear/drop, counts, queries, persistent inserts/deletes/rules issued from sessions) after a '
         'random shared prefix, each followed by queries of every relation from every session and without session; one longer random schedule (3 sessions '
         'x 5 ops + writer); 4 free-running 3-thread stress runs (5 calls per thread) whose linearisation is searched by the harness. non-trivial = two '
         'different sessions got a non-empty answer, some session held ephemeral state and a persistent write happened; distinct by schedule text',
    trusted_base=['no hooks: public API only (Handler::{from_config, create_session, execute_program, query_program, query_program_with_session, '
                  'session_retract_ephemeral, session_manager})',
                  'the harness linearisation search (small sequential model of the restricted stress operation set); its verdict is not trusted: the '
                  'chosen order — or the completion order when none is found — is checked by the Coq model and oracle'],
    assumptions=['one handler call is one atomic step (the exploration above is the evidence for it, not a proof)',
                 'the accept/reject verdict of rule registrations is taken from the implementation'],
)
