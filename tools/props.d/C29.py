CFG = dict(
    props_file='Props/C29.v', gen=['auth'],
    coq_targets=['Checks/C29.vo', 'Props/C29.vo'],
    level_text='C29_internal_unreachable / C29_no_acl_command_on_internal hold for every non-admin request (any program, role map, stored state, session binding): '
               'invariant "the current KG is never _internal and no executed .kg use/create/drop names it", by induction over the program lines of the same model as C27. '
               'Tied to Handler::execute_program on every run: _internal contents (marks, users, api_keys, ACL rows), the session binding and leaked rows are observed.',
    level_note='Trusted: as C27. Reading is observed as a response row containing the password-hash marker of _internal:users.',
    technique='Coq proof (invariant over the per-line execution loop) + differential correspondence with Handler::execute_program',
    bin='c29', n_quick=450, n_thorough=2250,
    corr_name='Model/HandlerAuth.v (handle) vs Handler::execute_program',
    rule='as C27 with 60% of all KG names being _internal (in .kg use/create/drop, .kg acl list/grant/revoke, as explicit target KG, as session binding, after comments, '
         'in the middle of multi-line programs) and queries on users; non-trivial = non-admin request that names _internal / users or is bound to it; distinct by identity, role map and program text',
    trusted_base=['as C27: Gen/AuthTable.v, mutates/target_class/step_class classifications, harness printers'],
    assumptions=['the caller is not on the ACL of _internal for the .kg acl part (C29_no_acl_command_on_internal); ACL grants by a KG owner legitimately change _internal:kg_acls rows of that KG'],
)
