CFG = dict(
    props_file='Props/C27.v', gen=['auth'],
    coq_targets=['Checks/C27.vo', 'Props/C27.vo'],
    level_text='C27_authorized / C27_write_needs_permission / C27_denied_no_effect hold for EVERY program (any number of logical lines, comments, '
               'continuation lines and .kg use/create/drop switches), identity, role map, session binding and stored state: induction over the line list '
               'with the invariant "the current knowledge graph is one of the graphs every later line was authorized against". The decision tables '
               'global_ok / kg_ok are regenerated from src/auth.rs on every run. The model (authorization block, dispatch, parse-all-first, per-line loop '
               'with the mutable current KG, post-processing) is tied to Handler::execute_program on every run: decision, facts/rules/schemas of every KG, '
               'the KG list, the ACL table and the session binding after the request are compared with the model inside Coq.',
    level_note='Trusted: Coq kernel, tools/translate.py (cross-checked by C28), the hand-written mutates classification, the harness (statement templates -> '
               'effect marks, copy of strip_comments/join_continuation_lines). The Gallina model is hand-written; its agreement with the Rust code is checked '
               'by correspondence, not proved. _refuted lemmas document the pinned behaviour repaired by the fix commit.',
    technique='Coq proof (induction over program lines, invariant on the set of possibly-current KGs) over translator-regenerated decision tables + differential correspondence with Handler::execute_program',
    bin='c27', n_quick=450, n_thorough=2250,
    corr_name='Model/HandlerAuth.v (handle) vs Handler::execute_program',
    rule='hand-written corpus (witnesses of DESIGN §9 row 22 and of failed switches) then generated programs of 1-6 statements (inserts, deletes, persistent/session rules, '
         'schema decls, facts, queries, updates, ~25 meta commands, .kg use/create/drop over existing, missing and internal names, directly handled session/user/apikey/acl '
         'commands, comments, blank lines, inline comments, continuation lines, occasional syntax errors, a malformed character stream) x identities (viewer, editor 45% each, admin 10%) '
         'x all 64 combinations of {none,viewer,editor,owner} on 3 KGs (+ stale / _internal ACL rows) x session-bound or explicit KG (incl. missing and _internal); '
         'non-trivial = non-admin request that was refused or that changed stored state; distinct by identity, role map and program text. '
         'Not generated: .agent / .why / .debug commands (they call an LLM or return mid-program), request shape (no session, no KG).',
    trusted_base=['Gen/AuthTable.v from tools/translate.py (cross-checked against authorize_statement/authorize_kg_operation by C28)',
                  'hand-written classification `mutates` (coq/Model/AuthClass.v) and `target_class` / `step_class` (coq/Model/HandlerAuth.v)',
                  'harness: statement kind from the real parse_statement per logical line; effect marks derived from the parsed statement; copy of strip_comments/join_continuation_lines'],
    assumptions=['a statement changes stored state only if its kind is classified as mutating and acts on the current KG (req_wf, checked on every case)',
                 'requests name their knowledge graph through the session or explicitly (execute_program(None, None, ..) is not modelled)',
                 'ACL table and user roles do not change concurrently with the request'],
)
