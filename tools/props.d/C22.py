CFG = dict(
    props_file='Props/C22.v',
    coq_targets=['Checks/C22.vo', 'Props/C22.vo'],
    level_text='Theorems C22_depth_has_complete_proof_partial / C22_level_has_complete_proof_partial / C22_depth_is_least_proof_height_partial: for EVERY program, database and model, a tuple whose reference '
               'derivation depth is d (first bottom-up level containing it, negation evaluated against the model) has a complete valid proof of height <= d+1 '
               '(induction over levels, no bound), and conversely every strict valid proof of height h puts its conclusion at depth <= h-1, so the reference depth is exactly the least proof height. '
               'This is the specification side of the property: what the oracle demands of `.why` can always be met. '
               'The implementation side is checked per run: every answer of every derived relation whose reference depth is within the configured limit must come '
               'back with a tree whose root is not the Truncated fallback and that has no Derived-source fallback leaf.',
    level_note='PARTIAL: no COMPLETENESS theorem about the backward chainer model (its soundness is C21_sound; the model is compared with build_proof_tree on every library-path case); '
               'completeness of the real chainer is established only on the explored inputs. '
               'The full statement is refuted on the chainer model by C22_refuted_comparison_first and C22_refuted_cycle_cut (vm_compute witnesses, replayed on the real code by the corpus). '
               'Known classes (findings): 1 a comparison/negated atom before the atom that binds its variables (clause skipped, Derived-source fallback); '
               '3 recursion over cyclic data (a cycle-cut failure is cached as a Derived-source fallback leaf).',
    technique='Coq proof (existence of complete derivations within the reference depth) + per-run oracle on the real `.why` / build_proof_tree output',
    bin='c22', n_quick=220, n_thorough=1100,
    corr_name='Model/ProvChain.v (build_proof_tree model) vs build_proof_tree on the library paths; harness derived data vs Coq reference model',
    rule='same generator and corpus as C21 (three paths; depth limits {1,2,3,4,6,50} on the library paths, 50 through the Handler); the oracle is evaluated on every '
         'answer whose reference depth + 1 <= limit; non-trivial = some returned tree has depth >= 2',
    trusted_base=['no hooks; public API as C21', 'a library call that does not return within 8 s is recorded as "no explanation" (the worker is leaked)'],
    assumptions=['programs are in the layered fragment, checked per case'],
)
