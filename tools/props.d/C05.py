CFG = dict(
    props_file='Props/C05.v',
    coq_targets=['Checks/C05.vo', 'Props/C05.vo'],
    level_text='C05_optimize_preserves_partial: for EVERY database and EVERY well-formed plan without Filter(False)/Union[] the model of Optimizer::optimize '
               '(all seven rules of apply_all_rules, the ten-round loop, fuse_to_flatmap, fuse_to_join_flatmap incl. remap_projection_for_join_flatmap and the predicate column '
               'remapping of pushdown_filters) returns a plan denoting the same BAG of tuples (Permutation; multiplicities matter for aggregates), and keeps it well-formed. '
               'Proof: one generic theorem about the bottom-up traversal all passes share, plus one lemma per local rewrite, by structural induction over the 12 node kinds. '
               'C05_unconditional_rules: always-true / always-false filter elimination, filter fusion, empty-union elimination and FlatMap fusion preserve the bag for ALL plans with no '
               'hypothesis. C05_refuted_pushdown_right: the original index arithmetic of pushdown_filters is refuted on the model (repaired in /repo). '
               'The model is tied to the code on every run: the model optimizer must return the very tree the real Optimizer::optimize returns (structural equality), and the bag '
               'denotation must equal the real CodeGenerator::execute on the input tree AND on the real output tree; the property itself is evaluated on the real outputs.',
    level_note='Partial in two named ways: plans containing Filter(_,False) or Union[] are covered only by the unconditional per-rule theorems and the oracle (their schema width is not their '
               'tuple width); JoinPlanner::plan_joins and BooleanSpecializer::specialize are not modelled and are checked by the oracle only (real pass, real execution of both plans, '
               'on trees built by the real IRBuilder from generated rule text). Trusted: Coq kernel; the hand-written models Model/IR.v, Model/Opt.v (validated per run, not derived); '
               'Differential Dataflow is compared with, never reasoned about. Avg / TopK aggregates, Div, builtin function calls and vector literals are outside the IR model.',
    technique='Coq proof over an executable model of the optimizer + per-run translation validation: structural model-vs-real optimizer output, bag denotation vs real execution, property oracle on real outputs',
    bin='c05', n_quick=170, n_thorough=3000,
    corr_name='Model/Opt.v optimize vs Optimizer::optimize (tree equality) and Model/IR.v den vs CodeGenerator::execute',
    rule='corpus (pushdown to the right join input x2, multi-key joins with non-ascending / repeated right keys under Map and Filter(Map) + builder programs p(A,B),q(B,A,C), always-false branch in front of a Union under a join x2, union of two joins under the join planner) then per seed: 3/4 random well-typed IR trees '
         '(depth <= 5, all 12 node kinds, every Predicate constructor incl. And/Or/ColumnCompareArith/ArithCompareConst with out-of-range and ill-typed columns, Compute expressions, '
         'aggregates count/count_distinct/sum/min/max; 1/8 with Filter(False)/Union[] allowed; 1/8 with repeated right join keys; joins with up to 3 key pairs in arbitrary (ascending / descending / repeated) order, frequently directly under a Map/FlatMap that projects right non-key columns; 1/16 malformed: an index broken) through Optimizer::optimize '
         '(1/5 also through BooleanSpecializer), 1/4 rule text (1-2 clauses, 1-3 atoms + constants, wildcards, comparisons, negation, aggregate heads) through the real parser + IRBuilder and then '
         'through optimize / plan_joins / specialize / all three; every tree executed before and after on a random typed database (8 relations incl. two all-Int ones of width 3 and 4, 0-8 tuples). '
         'Non-trivial = the pass changed the tree and the answer is non-empty; distinct by pass + tree + database.',
    trusted_base=['Model/IR.v den: hand-written denotation of the 12 IRNode kinds, validated against CodeGenerator::execute on every case (input tree and optimized tree incl. FlatMap/JoinFlatMap)',
                  'Model/Opt.v: hand-written model of Optimizer::optimize, validated by structural equality with the real optimizer output on every case',
                  'Differential Dataflow / timely: not modelled'],
    assumptions=['wfd d t: schema lengths equal tuple widths in d, projection/key/group-by indices in range, equal-length key lists (repeated right keys allowed), Union inputs of equal width',
                 'novoid t: no Filter(_,False), no Union[] (only for the composite theorem)',
                 'Counting semiring (isize diffs); BooleanDiff saturates at 127 duplicates',
                 'malformed plans whose broken index feeds a missing column (Null) into Compute arithmetic leave the modelled integer-arithmetic fragment (the code continues in f64): the checker detects this per case and skips only the model/implementation comparison there; well-formed generated plans must stay inside the fragment (checked)', 'floats are NaN-free multiples of 2^-k; i64 arithmetic in predicates does not overflow; Sum is the clamped exact sum'],
)
