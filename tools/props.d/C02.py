CFG = dict(
    props_file='Props/C02.v',
    coq_targets=['Checks/C02.vo', 'Props/C02.vo'],
    bin='groupa', bin_args=['c02'], n_quick=60, n_thorough=400, thorough_args=['all-configs'],
    level_text='Proved for all rules and databases: C02_join_order_irrelevant (the positive atoms of a rule body can be evaluated in any order: same answers — the Datalog-level content of join planning) and C02_any_dependency_order_partial (any two dependency-respecting evaluation orders agree), on top of C01 (all switches off = perfect model). The passes as implemented are validated, not modelled: every generated program/EDB is executed under 9 (quick) or all 32 (thorough) OptimizationConfig combinations and all answers must be equal as sets (oracle), and the all-off answer must equal the strategy model (correspondence). IR-level preservation of the rewrite passes is C05.',
    level_note='Trusted: Coq kernel; hand-written Gallina model of clause semantics and of the engine strategy (Model/Datalog.v) — IRBuilder, the optimizer passes and Differential Dataflow are validated by the correspondence, not derived; harness printers.',
    corr_name='eval_engine vs IQLEngine(all off)',
    rule='shape-first program generator (1-4 derived heads + query, self recursion, 2-cycles, negation, comparisons, integer arithmetic, wildcards, constants, string column) x EDBs over a 3-5 value domain, plus a hand-written corpus and targeted families: shared-subplan, bound-recursive query (`__query__` head, Magic Sets shape), negated relation defined later in the text, recursive answer relation, multi-key joins with permuted key order, union of projections, two-clause query heads, shuffled rule order x configurations {none, all, each single switch, 2 random}; thorough: all 32; non-trivial = non-empty answer',
    trusted_base=['IQLEngine public API (with_config, add_tuples, set_max_result_rows, execute_tuples)', 'Handler::query_program / validate_rules_stratification for C34'],
    assumptions=['values in generated programs are Int64 and strings; comparisons other than =/!= only between integers'],
)
