CFG = dict(
    props_file='Props/C26.v',
    coq_targets=['Checks/C26.vo', 'Props/C26.vo'],
    level_text='(a) C26_probes: for every bucket, hyperplane count and probe count the probe sequence starts at the bucket, is duplicate-free, non-decreasing in Hamming distance and '
               'at most num_probes long (reflection over the 63 possible mask lists with a verified sort-based checker). (b) C26_cache_any_schedule / C26_bucket_independent_of_cache: under every '
               'schedule of the cache\'s atomic sections (read-locked lookup, write-locked insert with LRU eviction, clear, resize) every hyperplane set handed out equals generate(key), so a bucket is a '
               'function of vector, table and hyperplane count only. (c) C26_distance_laws_partial: symmetry, non-negativity and zero self-distance of euclidean / squared / manhattan (symmetry of dot) for all '
               'finite vectors over an abstract float interface of listed IEEE facts; C26_hamming_laws in full. (d) C26_quantization_error_partial: both quantisations reconstruct within one step in exact arithmetic. '
               'Tie per run: lsh_probes vs the model; lsh_bucket from 5 threads during an 8-thread clear/resize/eviction thrash vs a bucket recomputed in Coq (f32 replay) from hyperplanes regenerated outside the cache; '
               'every distance / quantisation output vs float replays on decoded bit patterns; and the laws themselves evaluated in Coq on the implementation\'s output bits.',
    level_note='(c) and (d) are partial: the IEEE facts are assumed (standard; validated on bit patterns every run), cosine is covered by the per-run oracle only, f32 rounding inside quantisation is validated not proved. '
               '(b) is partial by nature: atomicity of the RwLock sections and purity of generate_hyperplanes are assumptions; the thread thrash is exploration. The float replays do not model overflow and are compared on moderate magnitudes only; the laws are checked on all inputs.',
    technique='Coq proof (reflection for probe sequences; invariant over all schedules of atomic cache sections; abstract float interface) + per-run differential correspondence and law oracles on bit patterns',
    bin='c26', n_quick=600, n_thorough=3000,
    corr_name='Model/VecOps.v + float replays (Model/VecFloat.v) vs inputlayer::vector_ops',
    rule='27 hand-written cases (doc examples, negative / minimal buckets, 62+ hyperplanes, more probes than exist; cosine of [1e30,0]; f32::MAX; empty and mismatched vectors; signed zeros; int8 extremes and zero vectors; '
         'subnormal / huge quantisation inputs; one cache thrash) then per 12 random cases: 2 lsh_probes (bucket small / any i64, 0-70 hyperplanes, 0-1200 probes), 1 lsh_bucket under 8-thread cache thrash (dims 1-12, 7 table ids incl. i64::MAX, 1-70 hyperplanes), '
         '4 distance cases (dims 0-8, half with boundary magnitudes 0, -0, 1e-40, 1e-30, 1e-20, 1e19, 1e30, f32::MAX; b = a, -a, 2a, other length or random), 2 int8 distance cases, 1 hamming, 2 quantisation. '
         'non-trivial = probes of length >= 2, every bucket case, distance cases with a != b of equal non-zero length, hamming with a != b, quantisation of non-constant vectors; distinct by inputs',
    trusted_base=['harness recomputation of generate_hyperplanes (same seeds, DefaultHasher) is the reference for cached hyperplanes',
                  'Model/VecFloat.v: IEEE round-to-nearest-even on dyadic rationals (add, sub, mul, div, sqrt for binary32/64, no overflow), validated by the correspondence itself'],
    assumptions=['RwLock read/write sections of the hyperplane cache are atomic; generate_hyperplanes is a pure function of its key',
                 'vectors have finite components (no NaN / inf inputs)',
                 'quantisation: max_abs >= 127 / f32::MAX and max - min <= f32::MAX are required for the one-step bound (see findings if flagged)'],
)
