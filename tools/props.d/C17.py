CFG = dict(
    props_file='Props/C17.v',
    coq_targets=['Checks/C17.vo', 'Props/C17.vo'],
    level_text='Isolation: C17_isolation_memory / C17_isolation_disk hold for every atomic section of every operation at any point of any '
               'schedule (frame lemmas), C17_isolation_seq for whole operations in sequential histories of any length over any names (valid or '
               'not), C17_wellformed for all histories with restarts, C17_restart_local / C17_restart_loads: a restart rebuilds each KG from that '
               "KG's own shards and directory only. Drop finality: C17_drop_final_conc / C17_no_resurrection hold for ALL client programs "
               '(create/drop/re-create/insert/delete/rule, any number of threads) and ALL schedules of the atomic sections (invariant over '
               'run_sched with ghost incarnation tags): once all clients returned, every shard on disk belongs to a live KG and carries only '
               "tuples of its current incarnation. C17_refuted_colon_name / C17_refuted_insert_drop_race: the pinned tree's model violates "
               'both (replayed on the real code, then repaired by two fix: commits). Tie: sequential histories over colliding names with full '
               'observation after every item, and insert/delete/drop/create threads driven through enumerated and random interleavings of the '
               'sched_point hooks with a restart at the end; every case is replayed in the model inside Coq and the frame / finality '
               "specification is evaluated on the implementation's own observations.",
    level_note='Schedule property, partial by nature: atomic sections = spans between sched_point hooks (lock-free spans or single lock scopes). '
               'The model cannot exhibit interleavings inside a section (e.g. two concurrent writers of knowledge_graphs.json), weak memory, or '
               'failures of parking_lot / DashMap. The disk is modelled by its recovered content (set per shard); shard metadata FILE names are '
               'not modelled - the collision of sanitized shard file names is a known finding (class 2) found by the tie. Restart is identity '
               "on a KG's own contents by C11, not re-proved here. Rule and schema catalogs are one directory entry per KG.",
    bin='c17', n_quick=1200, n_thorough=6000,
    corr_name='Model/ConcKG.v vs StorageEngine create/drop/insert/delete/register_rule/restart',
    rule='sequential: 9 hand-written histories (colon names, reserved names, sanitize collision, delete on a missing KG, drop/re-create) + '
         'random histories of 4-14 ops over 2-4 KG names drawn from {a, b, a:b, a_b, persist, metadata, default, k1, a:} and relations '
         '{r, b:r, b_r, x} with restarts, observed after every item; concurrent: 5 hand-written configurations (insert vs drop, delete vs '
         'drop, insert vs drop+re-create, insert vs drop vs create, two inserts vs drop) enumerated or sampled, + random configurations of '
         '2-3 threads x 1-2 ops over 2 KGs; one case = one history / one executed schedule; non-trivial = (seq) >= 2 KGs and a drop or '
         'restart, (conc) the schedule switches threads at least twice; distinct by history / schedule text',
    trusted_base=['hooks: src/verif_hooks.rs sched_point + call sites in storage_engine/mod.rs (cfg inputlayer_verif)',
                  'schedule controller harness/src/conc_ctl.rs; its enabledness table (a thread parked holding the dropping read guard blocks sections that take the write lock)',
                  'tuples interned to numbers; names passed as code-point lists',
                  'parking_lot::RwLock, DashMap modelled as atomic sections'],
    assumptions=['atomic sections of the model = spans between sched_point hooks',
                 'the recovered content of a shard is the set after replay (C11)',
                 'sequentially consistent memory'],
)
