CFG = dict(
    props_file='Props/C16.v',
    coq_targets=['Checks/C16.vo', 'Props/C16.vo'],
    level_text='Theorem C16_crash_safe: for every number of knowledge graphs, every history of catalog operations (rule register / drop / clear / '
               'remove-clause / replace / drop-by-prefix, schema register / update / remove, relation drop, clean restart), every crash point (every '
               'file-system micro-step boundary) and EVERY loss choice of the POSIX crash model (un-synced data lost in order or torn at any element, '
               'un-dir-synced link/rename/unlink lost in order), recovery succeeds, every catalog is the old or the new one of the operation in flight, '
               'completed operations are reflected, no catalog file is unparsable, and the recovered store satisfies the invariant again '
               '(C16_crash_safe_from: the theorem restarts from any such store). Proof by an invariant on each catalog directory preserved by every '
               'micro-step of write_file_atomic and by every crash outcome. C16_refuted_inplace_*: the same statement is false for the pinned tree\'s '
               'in-place fs::write (witnesses replayed on the real code, repaired by fix commits 2dbc749, e2872be). Tie to the code on every run: '
               'histories run by the real engine in a child process under strace; the abstracted system-call trace must equal the model\'s micro-step '
               'trace; tools/fsreplay.py rebuilds the data directory at every syscall boundary x loss choice and the real StorageEngine::new must '
               'recover exactly what the model recovers from the same crash point and loss choice; the property oracle is evaluated on the real output.',
    level_note='Trusted: Coq kernel; the POSIX crash model of Model/FS.v (data durable only after fsync, directory operations only after directory '
               'fsync, in-order per file / per directory, mkdir durable at once); strace + tools/fsreplay.py (reconstruction of directories); the JSON '
               'file format is abstracted to a token list whose strict prefixes never parse (validated on every torn file). The Gallina model of the '
               'catalog operations is hand-written; its agreement with the Rust code is checked by correspondence, not proved.',
    bin='c16', n_quick=96, n_thorough=480, run_timeout=3300,
    corr_name='Model/Catalog.v + Model/FS.v vs RuleCatalog/SchemaCatalog/StorageEngine::new (syscall trace, live catalogs, recovered catalogs)',
    rule='hand-written corpus (witnesses of the two repaired defects, two-KG, clause edits, error-only, remove-clause of the only / last remaining clause as the final catalog operation before a restart and before the last crash points) then, one third of the cases, a TARGETED family (a rule built with 1-2 clauses and taken down clause by clause so that the final catalog write removes its last clause, optionally followed by a restart) and random histories (remove-clause aimed at the first/last/only clause of an existing rule two thirds of the time) of 1-8 catalog '
         'operations on 1-2 knowledge graphs (4 relation names, 4 clause variants incl. an arity change, 4 schema variants incl. an invalid one, '
         'operations on a missing KG, clean restarts); every history yields all its crash points x loss choices (un-synced data: prefix of the '
         'pending operations, torn writes at first/middle/last byte; pending directory operations: every prefix); non-trivial = the history '
         'performed at least one catalog write (has mid-update crash points); distinct by history text',
    trusted_base=['strace -f syscall log of the child process; tools/fsreplay.py reconstructs directories under the crash model of Model/FS.v',
                  'POSIX durability assumptions of Model/FS.v (stated in the file header)',
                  'serde_json: no strict prefix of a pretty-printed JSON object parses (validated on every torn catalog of the run)'],
    assumptions=['crash model: un-synced data operations of a file and un-synced operations of a directory reach the disk in order (a prefix survives); '
                 'mkdir is durable at once; everything present when the history starts is durable',
                 'operations are issued sequentially on one engine (no concurrent catalog writers; KG write lock)'],
)
