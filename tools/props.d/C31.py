CFG = dict(
    props_file='Props/C31.v', gen=['rank'],
    coq_targets=['Checks/C31.vo', 'Props/C31.vo'],
    level_text='C31_value_order / C31_tuple_order / C31_strict_total hold for ALL values and tuples (any kind, any payload, NaN of every payload, '
               '-0.0, infinities; tuples of any arity) with no enumeration: value_cmp is shown to be the lexicographic comparison of an injective key '
               '(rank of the kind :: payload key), the rank being computed from the cross-kind table that tools/translate.py regenerates from '
               '`impl Ord for Value` on every run, so the theorems are re-proved against what the source says now. The same-kind arms, `==` and the '
               'hasher input are a hand-written model tied to the code by evaluating the real ==, cmp and Hash (recording Hasher + DefaultHasher) '
               'on all pairs and (thorough: all) triples over 50 representative values, random bit-pattern floats and random tuples. C31_consolidate '
               '(consequence: sort-then-merge-adjacent consolidation sums diffs per tuple, for all update lists) is tied to the real consolidate_to_current.',
    level_note='Trusted: Coq kernel, tools/translate.py (cross-checked: every cross-kind pair is evaluated on the real cmp), harness printers. '
               'value_wf (Float64 payload < 2^64) is a well-formedness condition of the representation, checked on every case.',
    technique='Coq proof (injective key into a lexicographic order; rank table regenerated from source) + per-run differential correspondence of ==, cmp, Hash',
    bin='c31', n_quick=600, n_thorough=40000,
    corr_name='Model/ValueOrd.v + Gen/ValueRank.v (+ Model/Consolidate.v) vs impl PartialEq/Ord/Hash for Value and Tuple (and consolidate_to_current)',
    rule='corpus (pre-repair witnesses), all 2500 ordered pairs over a 50-value domain covering every kind (NaN payloads, +-0.0, +-inf, subnormal, '
         'i32/i64 extremes, 2^53+1, strings over UTF-8 length boundaries, vectors with NaN/-0.0 elements, int8 vectors), triples over the domain '
         '(quick: 4n sampled, half same-kind; thorough: all 125000), n random-value pairs+triples (arbitrary f64 bit patterns), n random tuple '
         'pairs+triples of related tuples (equal / one position changed / prefix / extension), n/2 update lists (0-24 updates over 1-6 distinct tuples, diffs in +-1,+-2,0) '
         'through the real consolidate_to_current. non-trivial = every pair; a consolidation that merged or cancelled something; a triple only when a '
         'transitivity premise holds (a<=b<=c or a>=b>=c); distinct by full text',
    trusted_base=['tools/translate.py rank generator (Gen/ValueRank.v), cross-checked on every run: every ordered pair of kinds is compared by the real cmp',
                  'recording Hasher in harness/src/bin/c31.rs (implements only `write`; integer/str methods use the std defaults)'],
    assumptions=['value_wf: a Float64 payload is a 64-bit pattern (checked on every case)',
                 'hash congruence is stated on the byte stream fed to the Hasher (any deterministic Hasher then agrees); DefaultHasher equality is additionally observed'],
)
