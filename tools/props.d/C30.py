CFG = dict(
    props_file='Props/C30.v', gen=['auth'],
    coq_targets=['Checks/C30.vo', 'Props/C30.vo'],
    level_text='C30_all_or_nothing and C30_program_order hold for every program of QueryJob::execute\'s model (phase 1 parses every logical line, phase 2 is a left fold of one step per line); '
               'C30_syntax_error_no_effect lifts it to Handler::execute_program for every request it does not handle itself on the whole-text parse; for those (session/user/apikey/acl '
               'commands, session rules/facts) the full statement is false: C30_refuted_direct, known finding 1. Tied to the code on every run: every generated program is executed as is '
               '(final state = sequential fold) and with a syntax error injected at every position (state unchanged, request rejected).',
    level_note='Trusted: as C27. Runtime errors that abort a program after earlier lines ran (e.g. a reserved session-rule name) are outside the property (it is about parse failures) and are not generated.',
    technique='Coq proof over the model of the parse-all-first validation and the execution loop + differential correspondence with Handler::execute_program',
    bin='c30', n_quick=450, n_thorough=2250,
    corr_name='Model/HandlerAuth.v (query_program / handle) vs Handler::execute_program',
    rule='generated programs of 1-6 statements (as C27, 50% admin so that most run) each executed as is and with one of 12 malformed statements injected at every position '
         '(incl. before comments / continuation lines); non-trivial = multi-statement program rejected for its syntax error, or executed with a visible effect; distinct by identity, role map and program text',
    trusted_base=['as C27: harness printers, copy of strip_comments/join_continuation_lines, statement templates -> effect marks'],
    assumptions=['"statement" = logical line as QueryJob::execute splits the text (comment lines removed, indented lines joined)'],
)
