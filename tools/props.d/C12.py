CFG = dict(
    props_file='Props/C12.v',
    coq_targets=['Checks/C12.vo', 'Props/C12.vo'],
    level_text='C12_batch_roundtrip (a batch whose tuples share, column by column, the constructor of the first tuple - ints of both widths, floats '
               'of any bit pattern, strings, booleans, float/int8 vectors of any lengths - and has no Null/Timestamp column is read back '
               'identically), C12_wal_roundtrip (entries without non-finite floats parse back identically), C12_restart_values (for every buffer '
               'size and every history, if all batch files and the WAL tail are such, the store reopens and recovers exactly the served values '
               'and value types; uses the C14 refinement and the C11 invariant). The full statement is false on the code: five C12_refuted_* '
               'witnesses, one per known finding class (decidable predicate c12_class). Tie: every kind alone, every ordered pair of kinds in '
               'one column, random column-wise mixes, buffer sizes {1,2,10000}, restart on a real StorageEngine; recovered values compared '
               'exactly (floats by bit pattern) with the model, which predicts also HOW values are altered inside the known classes.',
    level_note='Trusted: Coq kernel, harness. Arrow/Parquet and serde_json byte formats are modelled at the level of typed columns / typed JSON '
               'values (which coercion each column type applies, which array type is read back); integer-to-float conversion is modelled '
               'exactly for |z| < 2^53. good_store (theorem hypothesis) implies c12_class = 0 (checker class); the converse margin is covered by '
               'the per-run check only.',
    bin='c12', n_quick=150, n_thorough=750,
    corr_name='Model/StoreCodec.v vs WAL JSON + Parquet batch codec through StorageEngine restart',
    rule='corpus: each of 13 value groups alone (all values in one batch / one per batch) x buffer {1,2,10000}; every ordered pair of the 9 kinds in '
         'one column x buffer {1,2,10000} + same batch; random: arity 1-2, a base kind per column with 0-37% deviation to any of 13 groups '
         '(incl. NaN/inf, vectors of other lengths, NaN inside vectors), 1-5 operations (inserts of 1-3 tuples, deletes, saves). '
         'non-trivial = at least one tuple is stored when the engine is restarted; distinct by (buffer, op list)',
    trusted_base=['values are compared by Model/Value.v equality (f64/f32 by bit pattern)'],
    assumptions=['drop + reopen without save, durability mode immediate (WAL path) - batch path reached through buffer sizes 1 and 2 and save',
                 'one relation, no compaction inside C12 histories (compaction re-sorts a batch by Ord for Value, which changes which tuple is first)'],
)
