CFG = dict(
    props_file='Props/C09.v',
    coq_targets=['Checks/C09.vo', 'Props/C09.vo'],
    level_text='C09_roundtrip_partial: for EVERY environment and EVERY rule of the decidable fragment wf_rule (atoms; variables, integers, '
               'floats, strings, booleans, placeholders, vector literals, standard aggregates, function calls, arithmetic with all five '
               'operators, precedence and parentheses; negation; all six comparisons) parse_rule (show_rule r) = Some r, proved by structural '
               'induction over a CHARACTER-level model of the real parser (a cascade of string splits) and printer; C09_arith_roundtrip is '
               'the full statement for arithmetic; C09_paths_agree_partial: direct / inline / session / persistent submission all yield the '
               'same rule (the persistent path through the modelled lossy stored form). The full property is refuted for the pinned tree by seven '
               'machine-checked witnesses (C09_refuted_*), one per recorded class. The model is tied to the code on every run: grammar-generated '
               'and mutated rule texts go through the real parse_rule -> Display -> parse_rule and the three results are compared with the model '
               'inside Coq; a sample of evaluable rules is submitted through the engine and the Handler on all paths (incl. restart).',
    level_note='_partial: ranking aggregates, hnsw_nearest(..), strings containing , ( ) < > [ ] = !, non-ASCII identifiers are outside the proved '
               'fragment and covered by the per-run correspondence and oracle only. Trusted: Coq kernel; the harness (AST printer, tables of f64 '
               'lexeme values / {} / {:?} texts / non-ASCII character classes taken from Rust and validated per case by tabs_ok); the hand-written '
               'model agrees with the Rust code by correspondence, not by proof.',
    bin='c09', n_quick=2000, n_thorough=12000,
    corr_name='Model/Syntax.v (parse_rule, show_rule) vs inputlayer::parser::parse_rule / Display',
    rule='hand-written corpus (67 texts incl. every known-finding witness and the two repaired defects) + seeded grammar-based rule texts '
         '(all term kinds; float lexemes integral/exponent/negative/huge/subnormal/inf/nan; strings incl. quotes, backslashes, unicode and the '
         'splitter characters; nested arithmetic with redundant parentheses and spacing noise; negation; comparisons; standard and ranking '
         'aggregates; function calls; hnsw_nearest) + 1/7 character-mutated texts; every 20th case is an end-to-end submission of an evaluable '
         'rule on 5 paths. non-trivial = accepted rule with at least one non-variable term or a non-atom body predicate (key = printed text), '
         'or an end-to-end case with a non-empty answer (key = rule text)',
    trusted_base=['per-case tables from Rust: str::parse::<f64> on numeric lexemes, format!("{}")/format!("{:?}") of every float in the ASTs, '
                  'char::is_alphanumeric/is_uppercase/is_lowercase/is_whitespace of every character; checked against the model recogniser and '
                  'the shape assumptions (tabs_ok) on every case',
                  'NaN payloads/signs are canonicalised to one NaN on both sides',
                  'BuiltinFunc names are compared through as_str(); to_lowercase is modelled for ASCII only (generator emits no U+212A/U+0130 in names)',
                  'end-to-end cases: the model does not evaluate rules; the oracle is equality of the sorted answer sets of the real paths'],
    assumptions=['serde_json stores finite f64 exactly (persistent path, restart)',
                 'the theorem is about parse_rule/Display; line splitting and comment stripping of whole programs (parse_program, parse_statement) '
                 'are exercised only by the end-to-end cases'],
)
