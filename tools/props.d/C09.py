CFG = dict(
    props_file='Props/C09.v',
    coq_targets=['Checks/C09.vo', 'Props/C09.vo'],
    level_text='TBD',
    level_note='TBD',
    bin='c09', n_quick=3000, n_thorough=60000,
    corr_name='Model/Syntax.v vs parse_rule/Display',
    rule='TBD',
    trusted_base=[],
    assumptions=[],
)
