CFG = dict(
    props_file='Props/C03.v', gen=['guard'],
    coq_targets=['Checks/C03.vo', 'Props/C03.vo'],
    level_text='C03_workers: for EVERY hash function, EVERY worker count n > 0, EVERY plan and EVERY database the model of '
               'CodeGenerator::execute_with_config (hash-partition every base relation, run the plan per partition, merge into a set, unless '
               'n = 1 or the guard forces one worker) returns the single-worker answer. The proof is an induction over the plan showing that every '
               'node kind the guard lets through distributes over a partition of the base relations at set level; WHICH kinds the guard lets '
               'through is not written by hand: Gen/PartitionGuard.v is regenerated from CodeGenerator::contains_join by tools/translate.py on every '
               'run and the obligation C03_guard_table_ok (every kind not forced to one worker is distributive and the guard inspects all its inputs) '
               'is re-proved against it (it fails on the pinned tree: Aggregate was looked through; repaired in /repo). The property\'s worker set '
               '{1,2,3,4,8} is subsumed by forall n.',
    level_note='Trusted: Coq kernel; tools/translate.py (cross-checked on every run: the real contains_join is evaluated through a cfg(inputlayer_verif) hook on one '
               'tree per node kind, bare / over a join / over an aggregate, and on every random tree, and compared with the generated table); the plan '
               'denotation Model/IR.v is hand-written and validated, not derived (Differential Dataflow is compared with it on every case). Not modelled: '
               'the engine above execute_with_config (recursive rules always run on one worker; per-rule row limits), errors inside a partition '
               '(unwrap_or_default), Avg/TopK aggregates and FunctionCall expressions (oracle only).',
    technique='Coq proof over a translator-regenerated guard table + per-run differential correspondence of the partitioned-execution model '
              'with CodeGenerator::execute_with_config (real tuple hashes supplied as a table) and an end-to-end oracle on IQLEngine::set_num_workers',
    bin='c03', n_quick=180, n_thorough=3000,
    corr_name='Model/Workers.v + Gen/PartitionGuard.v vs CodeGenerator::execute_with_config / contains_join',
    rule='(1) guard table: 14 tree shapes x {bare, over a join, over an aggregate} through the real contains_join; (2) random IR trees (depth <= 4, all node kinds; '
         'one third restricted to tuple-wise operators so that the partitioned path really runs; one sixth an aggregate on top of a join-free plan) x random typed '
         'databases (8 relations incl. two all-Int ones of width 3 and 4, 0-8 tuples, Int/Str/Bool/Float columns) through execute_with_config for n in {1,2,3,4,8}; (3) generated IQL programs '
         '(global and grouped count/sum/min/max heads, distinct projections, computed columns, join, negation, view-then-aggregate, aggregate-then-filter, union) '
         'through IQLEngine::set_num_workers(n), default and all-off optimization configs. Non-trivial = non-empty single-worker answer (or a guard-table shape); '
         'distinct by plan/program text + database.',
    trusted_base=['tools/translate.py guard generator (Rust match over IRNode kinds -> Gen/PartitionGuard.v), cross-checked per run through the hook CodeGenerator::verif_contains_join',
                  'Model/IR.v plan denotation: validated against CodeGenerator::execute / execute_with_config on every case, not proved (Differential Dataflow, timely, rayon are not modelled)',
                  'std DefaultHasher (SipHash) is an input to the model: the harness passes hash(tuple) mod 24 for every base tuple'],
    assumptions=['the hash function is arbitrary in the theorem; the correspondence uses the real one',
                 'a worker whose partition fails returns the empty result in the code (unwrap_or_default); errors are not modelled',
                 'float columns hold NaN-free values; aggregates Avg/TopK/TopKThreshold/WithinRadius and builtin function calls are outside the IR model (checked by the oracle only)'],
)
