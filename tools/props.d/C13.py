CFG = dict(
    props_file='Props/C13.v',
    coq_targets=['Checks/C13.vo', 'Props/C13.vo'],
    level_text='PARTIAL. The full statement C13_statement (every history of insert/delete/save/compact/restart, every crash point, every loss '
               'choice: the store reopens with the contents before or after the operation in flight, after it once acknowledged) is kept in '
               'Props/C13.v; it is refuted for the pinned tree (C13_refuted_no_dirsync: renames/unlinks/creation of the WAL file never made '
               'durable - replayed on the real code and repaired by a fix commit) and, narrowly, for the repaired tree (C13_refuted_torn_batch: a '
               'multi-tuple write is one multi-record WAL write that a crash can tear - known finding class 1). Proved for ALL inputs: '
               'C13_wal_append_partial (WAL append path = micro-steps create current.wal / fsync wal dir / write records / fsync file of every '
               'insert and delete: for every sequence of appends, crash point and loss choice exactly the acknowledged records plus a prefix of the '
               'batch in flight survive, everything once the fsync returned, and the invariant holds again after the crash) and '
               'C13_replay_fresh_partial (replaying a log extended by one operation = applying it with set semantics). NOT covered by a theorem: '
               'ensure_shard metadata write, flush (batch write, metadata rename, WAL rewrite), compaction, recovery drain, crash during recovery; '
               'these are covered per run by the correspondence (abstracted syscall trace = model micro-step trace; real StorageEngine::new on every '
               'reconstructed crash directory = model recovery of the model crash state) and by the oracle evaluated on the real recoveries.',
    level_note='Trusted: Coq kernel; the POSIX crash model of Model/FS.v; strace + tools/fsreplay.py; Parquet/JSON byte formats are abstracted '
               '(a batch/metadata file parses only when complete; a WAL is a list of records, a torn record is skipped - validated on every '
               'reconstructed state). Relation drop, KG drop, batched/async durability modes and crashes during recovery are not exercised.',
    bin='c13', n_quick=48, n_thorough=400, run_timeout=3300,
    corr_name='Model/Persist.v + Model/FS.v vs FilePersist/PersistWal/StorageEngine::new (syscall trace, live contents, recovered contents)',
    rule='hand-written corpus (flush on every write, WAL-only + restart, multi-tuple batch, save+compaction over two shards, duplicate insert / '
         'absent delete) then random histories of 1-7 operations (insert/delete of 1-3 tuples over 4 values into 2 relations, save, compact, '
         'restart) with buffer sizes {1,2,3,10}; every history yields all its crash points x enumerated loss choices (un-synced data: prefix of '
         'pending operations, torn writes at first/middle/last byte and at the first record boundary; pending directory operations: every '
         'prefix; product capped per crash point, extremes always included); non-trivial = the history wrote to disk; distinct by history text',
    trusted_base=['strace -f syscall log of the child process; tools/fsreplay.py reconstructs directories under the crash model of Model/FS.v',
                  'POSIX durability assumptions of Model/FS.v (stated in the file header)',
                  'Arrow/Parquet and serde_json byte formats: a file written whole parses only when complete (validated on every state)'],
    assumptions=['crash model: un-synced data operations of a file and un-synced operations of a directory reach the disk in order (a prefix survives); '
                 'mkdir is durable at once; everything present when the history starts is durable',
                 'immediate durability mode, one writer, max_wal_size never reached; shard metadata stores absolute batch paths, so every '
                 'reconstructed directory is recovered at the original path'],
)
