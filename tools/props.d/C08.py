CFG = dict(
    props_file='Props/C08.v',
    coq_targets=['Checks/C08.vo', 'Props/C08.vo'],
    bin='groupa', bin_args=['c08'], n_quick=100, n_thorough=1200, thorough_args=[],
    level_text="C08_limit_truncates: for every limit n, every choice of which rows are emitted first (any `pick` returning a duplicate-free sublist of length min n |A|), every program and EDB, the limited answer is a subset of the unlimited answer A of size min(n,|A|). C08_refuted_intermediate documents the repaired defect (limit applied to every node). Oracle: limits {1,2,3,5,|A|,|A|+1} on every case against the implementation's own unlimited answer.",
    level_note='Trusted: Coq kernel; hand-written Gallina model of clause semantics and of the engine strategy (Model/Datalog.v) — IRBuilder, the optimizer passes and Differential Dataflow are validated by the correspondence, not derived; harness printers.',
    corr_name='eval_engine vs unlimited IQLEngine answer',
    rule='shape-first program generator (1-4 derived heads + query, self recursion, 2-cycles, negation, comparisons, integer arithmetic, wildcards, constants, string column) x EDBs over a 3-5 value domain, plus a hand-written corpus and targeted families: shared-subplan, bound-recursive query (`__query__` head, Magic Sets shape), negated relation defined later in the text, recursive answer relation, multi-key joins with permuted key order, union of projections, two-clause query heads, shuffled rule order x limits {1,2,3,5,|A|,|A|+1}; non-trivial = |A| >= 2',
    trusted_base=['IQLEngine public API (with_config, add_tuples, set_max_result_rows, execute_tuples)', 'Handler::query_program / validate_rules_stratification for C34'],
    assumptions=['values in generated programs are Int64 and strings; comparisons other than =/!= only between integers'],
)
