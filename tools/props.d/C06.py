CFG = dict(
    props_file='Props/C06.v',
    coq_targets=['Checks/C06.vo', 'Props/C06.vo'],
    bin='groupa', bin_args=['c06'], n_quick=80, n_thorough=400, thorough_args=['all-configs'],
    level_text='Aggregation specification eval_clause_agg (groups = distinct values of the plain head variables over the distinct satisfying valuations, wildcards as anonymous variables; count/sum/min/max/count_distinct over them; saturating i64 sum) is the oracle: every generated aggregation rule is executed under 9 (quick) or 32 (thorough) configurations and each answer must equal the specification applied to the perfect model of the lower strata. C06_group_once (one row per group) is proved for all inputs.',
    level_note='Trusted: Coq kernel; hand-written Gallina model of clause semantics and of the engine strategy (Model/Datalog.v) — IRBuilder, the optimizer passes and Differential Dataflow are validated by the correspondence, not derived; harness printers.',
    corr_name='eval_clause_agg vs IQLEngine',
    rule='generated programs whose query is an aggregation (count/sum/min/max/count_distinct, 0-2 group variables, joins that multiply bindings, wildcards, filters) + corpus of 11 hand-written aggregation rules; non-trivial = non-empty answer',
    trusted_base=['IQLEngine public API (with_config, add_tuples, set_max_result_rows, execute_tuples)', 'Handler::query_program / validate_rules_stratification for C34'],
    assumptions=['values in generated programs are Int64 and strings; comparisons other than =/!= only between integers'],
)
