CFG = dict(
    props_file='Props/C20.v',
    coq_targets=['Checks/C20.vo', 'Props/C20.vo'],
    level_text='Theorems C20_prefix / C20_snapshot_committed / C20_log_from_programs hold for ALL client programs (any number of threads and '
               'operations: multi-tuple inserts, deletes, every rule-catalog operation that publishes a snapshot - register / remove clause by index / drop / clear / replace - and snapshot reads) and ALL schedules of the model\'s atomic sections '
               '(invariant over run_sched: engine state = published snapshot = state after the whole apply log; every held snapshot and every '
               'completed read = state after a prefix of the apply log that contains the reader\'s acknowledged writes). The model is tied to the code '
               'on every run: real threads are driven through enumerated and random interleavings of the sched_point hooks, every executed schedule '
               'is replayed step by step in the model inside Coq (same parking labels, results, apply order, final snapshot) and the prefix '
               'specification is evaluated on the implementation\'s own reads.',
    level_note='Schedule property, partial by nature: an atomic section of the model is the span between two sched_point hooks (a lock-free span or '
               'exactly one lock scope of the code). The model cannot exhibit interleavings inside a lock scope, weak-memory effects, or failures of '
               'parking_lot::RwLock / DashMap / ArcSwap (the snapshot pointer swap is one atomic step). Exploration of real interleavings is '
               'exhaustive for the five hand-written configurations (2-3 threads, up to 4 operations) and sampled beyond; it validates the model, '
               'the quantifier is closed by the Coq theorems.',
    bin='c20', n_quick=1200, n_thorough=6000,
    corr_name='Model/ConcSnap.v vs StorageEngine insert/delete/register_rule/get_snapshot_for under the schedule controller',
    rule='configurations = 8 hand-written (writer with two batches vs reader; insert vs delete vs reader; rule registration vs insert into the '
         'view vs reader; two writers reading their own writes; delete batch vs reader; sequential removal of middle/last/only clauses of a '
         '3-clause rule with a read after each; clause removal + immediate own read vs another reader; replace/clear/drop) enumerated '
         'exhaustively at the hook points, plus sequential random rule-catalog histories (multi-clause rules, out-of-range indices) and random '
         'configurations (2-3 threads x 1-3 ops over 2 relations and 8 tuple ids, optional initial facts) enumerated when <= 30 interleavings, '
         'else 30 random schedules; one case = one executed schedule; non-trivial = the schedule switches threads at least twice; distinct by '
         'configuration + schedule text',
    trusted_base=['hooks: src/verif_hooks.rs sched_point + call sites in storage_engine/mod.rs (cfg inputlayer_verif)',
                  'schedule controller harness/src/conc_ctl.rs (parks threads at hook labels; one thread runs at a time)',
                  'tuples and relation names are interned to numbers by the harness (tuple equality = id equality)',
                  'parking_lot::RwLock, DashMap, ArcSwap are modelled as atomic sections / atomic pointer load-store'],
    assumptions=['atomic sections of the model = spans between sched_point hooks; each span is lock-free or one lock scope',
                 'sequentially consistent memory'],
    exhaustive=False,
)
