CFG = dict(
    props_file='Props/C07.v',
    coq_targets=['Checks/C07.vo', 'Props/C07.vo'],
    bin='groupa', bin_args=['c07'], n_quick=160, n_thorough=2400, thorough_args=[],
    level_text="C07_wf_answer_partial: for EVERY program, EDB and fuel the engine strategy's answer is duplicate-free and every answer tuple is an instance of a clause of the answer relation with that clause's head arity and head constants verbatim (induction over the execution order and over the local fixpoint). Partial: aggregate heads (arity part) and the recursive min/max-in-loop path are not modelled; the oracle checks set-ness, arity and head constants on every implementation answer, incl. aggregate and recursive-aggregate programs.",
    level_note='Trusted: Coq kernel; hand-written Gallina model of clause semantics and of the engine strategy (Model/Datalog.v) — IRBuilder, the optimizer passes and Differential Dataflow are validated by the correspondence, not derived; harness printers.',
    corr_name='eval_engine vs IQLEngine::execute_tuples',
    rule='shape-first program generator (1-4 derived heads + query, self recursion, 2-cycles, negation, comparisons, integer arithmetic, wildcards, constants, string column) x EDBs over a 3-5 value domain, plus a hand-written corpus and targeted families: shared-subplan, bound-recursive query (`__query__` head, Magic Sets shape), negated relation defined later in the text, recursive answer relation, multi-key joins with permuted key order, union of projections, two-clause query heads, shuffled rule order; one third of the programs get an aggregate query; both all-off and default optimizer settings; non-trivial = non-empty answer',
    trusted_base=['IQLEngine public API (with_config, add_tuples, set_max_result_rows, execute_tuples)', 'Handler::query_program / validate_rules_stratification for C34'],
    assumptions=['values in generated programs are Int64 and strings; comparisons other than =/!= only between integers'],
)
