CFG = dict(
    props_file='Props/C28.v', gen=['auth'],
    coq_targets=['Checks/C28.vo', 'Props/C28.vo'],
    level_text='Lattice, viewer-read-only and admin-only are proved by exhaustive case analysis over the statement-kind enum and the decision tables '
               'that tools/translate.py regenerates from src/auth.rs on every run, so the theorems are about what the code says now; the finite domain '
               '(every Statement/MetaCommand variant x every role) is in the statement. The translator is cross-checked against the real functions on every variant.',
    level_note='Trusted: Coq kernel, tools/translate.py (cross-checked per run), the hand-written mutates/admin_only classification.',
    technique='Coq proof over translator-regenerated decision tables (finite, exhaustive) + per-run cross-check of the translator against the real authorize_* functions',
    bin='c28', n_quick=1, n_thorough=1, exhaustive=True,
    corr_name='Gen/AuthTable.v (translator) vs authorize_statement/authorize_kg_operation',
    rule='exhaustive: every Statement / MetaCommand variant (several payloads each) x every global role and KG role through the real '
         'authorize_statement / authorize_kg_operation; non-trivial = a kind some role may and some role may not execute',
    trusted_base=['tools/translate.py (Rust match tables -> Gen/AuthTable.v), cross-checked on every run against the real functions for every variant x role',
                  'hand-written classification `mutates` / `admin_only` in coq/Props/C28.v'],
    assumptions=['decisions are payload-independent (the translator rejects arms that inspect payloads; the harness varies payloads)'],
)
