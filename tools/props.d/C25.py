CFG = dict(
    props_file='Props/C25.v',
    coq_targets=['Checks/C25.vo', 'Props/C25.vo'],
    level_text='Theorems C25_refines / C25_insert_report / C25_insert_batch_report / C25_persist_roundtrip: for every configuration and every '
               'history (any length) of insert, update, insert_batch (also failing), delete (also unknown / repeated), rebuild (distinct ids, one '
               'non-zero dimension) and save/load, the index state machine of Model/Hnsw.v refines the abstract index `spec` (map of live ids to latest '
               'vectors, deleted-since-compaction set, counters, dimension, configuration); what search can reach equals the live entries; save/load '
               'is the identity on stored vectors, tombstones, dimension, configuration and searchable content. Proof: simulation invariant by induction '
               'over the history. The model is tied to HnswIndex on every run: after every operation of random histories the harness records '
               'len/tombstone_count/dimension, the saved index.json, the ids of an exhaustive search and each live id\'s self-distance; Coq replays the '
               'model (correspondence) and the abstract index (property oracle) on them.',
    level_note='Trusted: Coq kernel, harness printers, serde_json as a typed codec. normalize_vector\'s f32 arithmetic is an input table recomputed by the '
               'harness (the theorems hold for every normalize that keeps vector length). Graph membership is observed through exhaustive search '
               '(k > len, ef = 4096), which relies on hnsw_rs returning every node of a small graph. The Gallina model is hand-written; agreement with the Rust code is checked, not proved.',
    technique='Coq proof (refinement of the index state machine to an abstract index, induction over histories) + per-run differential correspondence',
    bin='c25', n_quick=300, n_thorough=1500,
    corr_name='Model/Hnsw.v (state machine) vs HnswIndex',
    rule='7 hand-written histories (witnesses of the four repaired defects, the 30 % threshold, dimension reset) then random histories of 1-40 operations over 2-10 '
         'identifiers (small or > 2^40), dims 1-4, all four metrics, m/ef variations: insert 45 %, delete 20 %, delete+re-insert 7 %, rebuild 7 %, save/load 10 %, '
         'insert_batch 6 % (a third with an invalid entry), malformed insert 5 % (empty, wrong dimension, zero vector); vectors from a pool incl. zero, norm < 1e-10, '
         '1e-5, fractions; an observation after every operation. non-trivial = an accepted insert/rebuild followed by a delete, an update of a stored id or a save/load; distinct by configuration + full history',
    trusted_base=['normalize_vector / zero-norm test are recomputed by the harness with the same f32 operations and passed to the model as a table (validated: the saved vectors must match bit for bit)',
                  'serde_json encoding of index.json is treated as a typed codec (f32 read back through f64 like the real load)',
                  'exhaustive search (k = len+1, ef = 4096) is used to observe graph membership'],
    assumptions=['rebuild() is given distinct identifiers and vectors of one non-zero dimension (wf_op); other histories are run for correspondence only',
                 'vectors are finite (NaN/inf would make save produce null and load fail; not generated)',
                 'tombstone ratio: counts below 2^50 so that the f64 comparison with 0.3 agrees with the exact one'],
)
