CFG = dict(
    props_file='Props/C33.v',
    coq_targets=['Checks/C33.vo', 'Props/C33.vo'],
    gen=['schema'],
    level_text='C33_matches_is_conforms: the type-matching table regenerated from SchemaType::matches on every run equals the hand-written '
               'specification conforms for every declared type (every vector dimension) and every value. C33_enforced: after ANY history of '
               'declarations, re-declarations, inserts, updates, deletes and conditional deletes every stored tuple conforms to the declared '
               'schema (invariant over all histories; every storing path validates the whole set of tuples it is about to store first, a '
               'declaration validates the stored tuples). C33_reject_whole_batch, C33_accept_conforming(_stored). Two historical refutations '
               '(update without validation, declaration over non-conforming data) were repaired by fix: commits. Tie: exhaustive matrix of 11 '
               'declared types x 11 values through validate / session insert / engine insert, plus random histories through '
               'Handler::query_program and the engine API with contents read after every step.',
    level_note='Trusted: Coq kernel, tools/translate.py (schema generator; cross-checked by the exhaustive matrix on every run), harness. '
               'A Named type alias accepts every value in code and in the specification (aliases are not resolvable at validation time) - '
               'noted, not judged. Session (ephemeral) facts added by a `rel(args).` statement are not validated by the code; the check covers '
               'Handler::session_insert_ephemeral, which is.',
    bin='c33', n_quick=250, n_thorough=1250,
    corr_name='Model/StoreSchema.v (+ Gen/SchemaMatches.v) vs schema declaration / validation / storing paths',
    rule='corpus (update with non-conforming insert half, declaration over non-conforming data, re-declaration narrower than data, mixed batch) + '
         'exhaustive matrix 11 declared types x 11 values (incl. Null, both int widths, timestamp, f32/int8 vectors of 2 dimensions) x 3 paths + '
         'positional batches: for every declared type x every non-conforming value, a 3-tuple batch of conforming tuples with the offender '
         '(a near miss where one exists: other vector length, other int width) at position first/middle/last through validate / session '
         'insert / API insert / +r[..], plus the conforming batch + '
         'random histories of 3-10 steps on a binary relation (a third of API-declared schemas get a vector(2|3) column; half of the deviations are near misses; batches of 1-4 tuples): declaration via statement text or API (all types), +r[..] inserts, API '
         'validate+insert with all value kinds, validate, session insert, updates (swap / constant / repeated variable templates), deletes, '
         're-declarations; 25% data-first, 8% with wrong-arity tuples. non-trivial = a schema is declared and a storing or validating step '
         'follows it; distinct by full op list',
    trusted_base=['tools/translate.py gen_schema: reads the single match of SchemaType::matches; fails on any arm outside (type kind, value kind) -> true | false | len == dim',
                  'reply messages containing "rejected" are read as rejection by the harness'],
    assumptions=['one relation, sequential client', 'persistent schema declarations (session-scoped declarations share the catalog: C10)'],
)
