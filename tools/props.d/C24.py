CFG = dict(
    props_file='Props/C24.v',
    coq_targets=['Checks/C24.vo', 'Props/C24.vo'],
    level_text='Theorems C24_valid / C24_exact: for every configuration, history (insert, update, insert_batch, delete, rebuild, save/load), query, k and ef the '
               'model of Index::search returns at most k results with distinct, live identifiers, non-decreasing distances, each distance being the configured '
               'metric between the prepared query and the identifier\'s current stored vector; and when live <= search breadth exactly min(k, live) results that are '
               'the k nearest. The only assumption about hnsw_rs is that its graph search returns distinct in-range internal indices paired with their L2 distance; '
               'exactness does not depend on it (the wrapper scans a graph that fits in the breadth, modelled exactly). Tie per run: the wrapper model, fed the recorded raw '
               'graph-search result, must reproduce Index::search bit-for-value (f32/f64 arithmetic of DistL2, transform_distance and manhattan_distance replayed in Coq), the '
               'recorded raw result must satisfy the assumed contract, and is_valid_knn (the executable property, exact dyadic arithmetic from the f32 bit patterns) must accept the result.',
    level_note='Partial by nature: hnsw_rs itself is an oracle with the stated contract (validated per run, not proved). The identity transform_distance(L2 of unit vectors) = 1 - cos '
               'is validated numerically with tolerance 2^-16; l2 within 2^-18 relative on the square, l1 within 2^-40 relative. The DotProduct metric of the index is the negated cosine of '
               'the normalised vectors (as implemented and documented in transform_distance), not the raw inner product. Trusted: Coq kernel, harness printers, hooks verif_raw_search / verif_graph_nodes.',
    technique='Coq proof (wrapper model over an abstract graph search with a recorded contract; invariant from the C25 refinement) + proved-property checker is_valid_knn on real output + differential correspondence of the wrapper',
    bin='c24', n_quick=400, n_thorough=2000,
    corr_name='Model/Hnsw.v Section Search (wrapper) vs Index::search, and the ann contract vs hnsw_rs',
    rule='5 hand-written cases (Manhattan L1-nearest outside the 4k L2-nearest, pending tombstones, update, duplicates with k=0 / k>n / ef=1, empty and single) then random cases: '
         'dims 1-8, 0-60 vectors with integer components in -8..8 scaled by {1, 0.5, 2^-10, 1e-5} (near-zero norms), 1/6 duplicates, all four metrics, m in {4,8,16,32}, '
         'ef_construction in {20,100,200}, ef_search in {1,4,8,32,50,200}; built by inserts, insert_batch or rebuild; 1-4 rounds of 1-3 searches (k in {0,1,2,3,5,10,n,n+3}, '
         'ef in {None,1,k,n,n+10,200}, query random or a stored vector) separated by deletes, updates (delete+insert), inserts, save/load. non-trivial = a search returned >= 2 results; distinct by configuration + full step list',
    trusted_base=['hooks HnswIndex::verif_raw_search / verif_graph_nodes (cfg inputlayer_verif) expose the raw hnsw_rs result and the graph node list',
                  'normalize_vector is recomputed by the harness with the same f32 operations and passed as a table',
                  'hnsw_rs graph search: assumed contract = distinct in-range indices with their L2 distance (checked on every recorded raw result when consulted)'],
    assumptions=['finite vectors, no NaN (sort_by with partial_cmp is a total preorder)', 'k*4 + tombstones and ef + tombstones do not overflow usize',
                 'rebuild() is given distinct identifiers, vectors of one non-zero dimension and, for cosine / dot, of non-zero norm (rebuild does not validate what insert validates; such cases are run for correspondence only)',
                 'queries for cosine / dot have non-zero norm (a zero query has no cosine)'],
)
