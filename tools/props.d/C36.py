CFG = dict(
    props_file='Props/C36.v',
    coq_targets=['Checks/C36.vo', 'Props/C36.vo'],
    level_text='Theorems C36_no_false_negative / C36_lookup_exact / C36_remove_report hold for every filter size, hash count, hash function and '
               'operation history (induction over the history, invariant: every stored key is covered by the filter and the entry table equals the '
               'specification multiset). The model is tied to the code on every run by replaying random histories on BloomFilter/HashIndex and '
               'comparing every answer and the final bit array with the model inside Coq.',
    level_note='Trusted: Coq kernel, the harness printers, hooks exposing hash_pair/bits; SipHash is an input. The Gallina model is hand-written; '
               'its agreement with the Rust code is checked by correspondence, not proved.',
    bin='c36', n_quick=400, n_thorough=2000,
    corr_name='Model/Bloom.v vs BloomFilter/HashIndex',
    rule='random bloom histories (insert/clear/query over 2-12 keys, sizes {0,1,63,64,65,128,200,1000} bits, hash counts {0,1,2,3,7,32,40}) '
         'and hash-index histories (insert/remove/build/get over mixed-kind tuples incl. NaN/-0.0/null keys, out-of-range key columns); '
         'non-trivial = a query answered false (bloom) or a lookup returning tuples (index); distinct by full history text',
    trusted_base=['hooks BloomFilter::verif_hash_pair / verif_words, HashIndex::verif_bloom (cfg inputlayer_verif) expose hashes and bit array',
                  'SipHash (DefaultHasher) is an input to the model, not modelled'],
    assumptions=['hash values are supplied by the implementation (any hash satisfies the theorems)'],
)
