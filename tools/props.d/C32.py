CFG = dict(
    props_file='Props/C32.v',
    coq_targets=['Checks/C32.vo', 'Props/C32.vo'],
    level_text='C32_relations_are_sets (NoDup after every history of write statements), C32_statement_meets_spec (every accepted insert / '
               'delete / bulk delete / conditional delete / update, in every reachable state, under every row limit and every choice of returned '
               'rows, produces exactly the contents and the counts of the set specification spec_after, unless its match query is truncated by '
               'the row limit = known class 1), C32_insert_report / C32_delete_report (engine-level counts incl. in-batch duplicates), '
               'C32_rejected_is_noop. Proofs by refinement of the engine steps of Model/Store.v (induction over batches and over the per-binding '
               'operation sequences). C32_refuted_row_limit is the known finding; C32_refuted_update_interleaved documents the repaired defect. '
               'Tie: random statement histories through Handler::query_program, counts parsed from the reply messages, relation read after '
               'every statement, compared with the model inside Coq.',
    level_note='Trusted: Coq kernel, harness printers/parsers of reply messages. Statements are restricted to one binary relation, variables '
               'X/Y, integer/string constants and one comparison in the body; the match query itself (the Datalog engine) is modelled by its '
               'specification (all satisfying bindings) and checked by correspondence, not proved (C01 covers query evaluation).',
    bin='c32', n_quick=400, n_thorough=2000,
    corr_name='Model/StoreStmt.v vs Handler::query_program write statements',
    rule='corpus (swap update on {(1,2),(2,1)}, chained updates, in-batch duplicates / duplicate insert / absent delete / bulk delete with repeats, '
         'conditional deletes with constant and repeated-variable heads, row limit below the match count) + random histories of 2-12 statements '
         '(+r[..] 30%, -r(..) 10%, -r[..] 10%, conditional delete 20%, update 20%, direct engine insert/delete 10%) over a 3-5 value domain, '
         'integer or string second column, max_result_rows in {100000,0,3,1}, 10% with unsafe conditions. '
         'non-trivial = the history contains a conditional delete or an update; distinct by (limit, full statement list)',
    trusted_base=['reply message formats ("Inserted N fact(s)", "Deleted N fact", "Conditional delete: N", "Update: D deleted, I inserted") are parsed by the harness',
                  'the match query of conditional delete / update is modelled by its specification (all satisfying bindings of r(..), cond)'],
    assumptions=['statements are sequential (one client)', 'histories use one binary relation r without declared schema (schemas are C33)'],
)
