CFG = dict(
    props_file='Props/C14.v',
    coq_targets=['Checks/C14.vo', 'Props/C14.vo'],
    level_text='C14_refines: for EVERY persist configuration (buffer size, WAL size limit, durability mode) and every clean history the physical '
               'store (WAL, buffer, batch files; buffer-full flush, WAL-size flush_all, save, compaction, WAL replay) is exactly the logical store '
               'of Model/Store.v (refinement, induction over the history; invariant: the WAL mirrors the buffer or is empty in async mode; flush '
               'keeps, append extends and compaction consolidates the log a reader sees). C14_invisible: a save or compaction inserted anywhere in '
               'any history under any configuration changes neither the served relation nor the recovered relation afterwards (congruence on '
               'engine states, Proofs/StoreEquiv.v), C14_invisible_reports (later reports unchanged), C14_config_independent, '
               'C14_recovered_is_served. Tie: histories x configurations on a real StorageEngine with contents, batch-file count and WAL line '
               'count compared with the model after every step.',
    level_note='Trusted: Coq kernel, harness. The theorems are per shard; two-relation cases are checked as two independent single-shard models that share the '
               'batch directory and WAL file (exact while the WAL-size trigger is off); the WAL size trigger is modelled by a lower bound on the line size (exact for limits < 64 '
               'bytes or never reached) and does not fire in batched mode for WALs below the 8 KB write buffer; Parquet/JSON byte formats are not '
               'modelled (C12). Clean = graceful shutdown (save_all) before reopen in async mode. A restart is not a maintenance step: the live '
               'engine remembers the arity of an emptied relation, a restarted one does not (noted in Proofs/StoreEquiv.v).',
    bin='c14', n_quick=150, n_thorough=750,
    corr_name='Model/StorePersist.v vs StorageEngine/FilePersist (contents, batch files, WAL lines)',
    rule='corpus: one fixed history (flushes, compaction over deletes and duplicates, save, graceful restart, drop+reopen) under all 24 '
         'configurations buffer_size {1,2,3,10000} x max_wal {0,1} x {immediate,batched,async}; random: histories of 2-25 steps (insert batches '
         'with duplicates 35%, deletes 25%, save 10%, compact 15%, graceful restart 10%, drop+reopen 5% (not in async)) over 2-4 tuples of 4 '
         'kinds x random configuration incl. max_wal 64MB; TWO relations of one KG with prefix-related shard names (r, r_weight): corpus where one '
         'relation is flushed alone by a full buffer (buffer_size {1,2,3,10000}, immediate/batched) while the other has WAL-only updates, then '
         'drop + reopen WITHOUT save, then deletes / compaction / more reopens; n/2 random two-relation histories (WAL-size trigger off). non-trivial = a maintenance step follows at least one write; distinct by '
         '(configuration, tuple kind, op list)',
    trusted_base=['batch files are counted in data_dir/persist/batches/*.parquet, WAL lines in persist/wal/current.wal (immediate mode only)'],
    assumptions=['single writer; shards interact only through flush_all (WAL-size trigger), which two-relation cases keep off', 'clean shutdown only (crashes are C13)'],
)
