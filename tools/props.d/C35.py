CFG = dict(
    props_file='Props/C35.v', gen=['wirerank'],
    coq_targets=['Checks/C35.vo', 'Props/C35.vo'],
    level_text='C35_slice (for ALL row sets, key lists, directions, limits, offsets: the answer is the slice of a permutation of the full answer, '
               'total = its size, and that permutation is sorted by the keys whenever good_keys holds), C35_comparator_total_preorder / '
               'C35_row_comparator_total_preorder (compare_wire_values and the multi-key closure are total preorders on every good column, NaN, -0.0, '
               'nulls, missing columns and every mix of kinds included; proved by a key argument against the rank/arm tables regenerated from '
               'handler.rs on every run), C35_small_ints_good (|i| < 2^53 is always good: bit-level proof that `as f64` is exact there), '
               'C35_oracle_complete / C35_oracle_sound (the executable specification run on the implementation output accepts exactly slices of sorted '
               'arrangements up to ties). The full property is refuted for the remaining class (C35_refuted_int_float_precision, known finding).',
    level_note='Trusted: Coq kernel, tools/translate.py (cross-checked: every pair of kinds goes through the real comparator), harness printers, the cfg hook. '
               '"Never fails" is observed on the real call under catch_unwind; the theorem excludes its only cause (a comparator that is not a total preorder).',
    technique='Coq proof (key argument over translator-regenerated tables; sorted-permutation-slice refinement; proved validator) + per-run differential correspondence',
    bin='c35', n_quick=400, n_thorough=2000,
    corr_name='Model/WireSort.v + Gen/WireRank.v vs compare_wire_values / sort_rows / apply_pagination / Handler::query_program / query_program_with_session (fast and slow path) / execute_program',
    rule='corpus (NaN witnesses of the repaired defect, the int/float precision witness); all 1156 ordered pairs of 34 representative Option<WireValue> '
         '(every kind, None, NaN both signs, +-0.0, +-inf, 2^53, 2^53+1, i64 extremes) and 4n triples through the real comparator; n random row sets '
         '(0-110 rows, 1-3 columns, ragged rows, column profiles: int64 / int32+int64 / floats with NaN / int64+floats / int64+floats+NaN / all kinds / strings / '
         'big ints next to floats) with 0-3 keys (also out-of-range columns), random directions, limit/offset in {none, 0, inside, beyond} through the real '
         'sort_rows+total+apply_pagination; a score-table corpus (top-k, windows) plus n/5 random stored relations queried with :asc/:desc annotations and limit(n, off) on EVERY handler '
         'query path: Handler::query_program, a clean session (fast path), and dirty sessions (slow path of query_program_with_session: part of the tuples as ephemeral session facts, '
         'an ephemeral fact in another relation, an ephemeral session rule, both), entered through query_program_with_session or execute_program(Some(&sid), ..), each judged against '
         'the un-annotated answer obtained on the same path. non-trivial = >=1 key, >=3 rows, non-empty result (sort/query); every comparator pair; a triple when a transitivity premise holds; distinct by text',
    trusted_base=['tools/translate.py wirerank generator (Gen/WireRank.v): rank table and arm classification, cross-checked by evaluating the real comparator on every pair of kinds',
                  'hook verif_sort_paginate / verif_compare_wire_values (cfg inputlayer_verif) = sort_rows; rows.len(); apply_pagination exactly as query_program applies them',
                  'slice::sort_by is modelled as a stable sort (insertion sort); for a total preorder every stable sort returns the same list'],
    assumptions=['good_keys keys rows (decidable, evaluated per case): no sort-key column mixes Float64 with Int64 values whose order changes under `as f64`; '
                 'always true when |i| < 2^53 (C35_small_ints_good)',
                 'through the handler path the order in which the engine hands rows to the sort is not observable: ties are compared key-wise'],
)
