CFG = dict(
    props_file='Props/C18.v',
    coq_targets=['Checks/C18.vo', 'Props/C18.vo'],
    level_text='C18_invisible: for EVERY history of base-fact inserts/deletes, rule registrations (any acceptance policy of the catalog), clause '
               'removals, rule drops and enable_incremental at any point, the engine\'s answer (valid materializations injected into the snapshot, '
               'their rules skipped) equals the reference evaluation of the current rules over the current facts, for every relation; proved by '
               'induction over the history with an invariant on the DerivedRelationsManager book-keeping (unbounded histories, any rule sets incl. '
               'recursion, negation and rules over derived relations). C18_nothing_materialized: on such histories nothing is ever materialized, '
               'because auto_materialize_rule appends the text `?name(V0,..)`, which IQLEngine::execute_tuples rejects as an unsafe rule (observed on '
               'every registration of every run). C18_invisible_outside_known extends the theorem to histories that also call '
               'KnowledgeGraph::materialize_derived_relation with the engine\'s current answer, outside four decidable classes; '
               'C18_refuted_* are the machine-checked counterexamples for each class, each replayed on the real code by the corpus.',
    level_note='The Gallina model (Model/Mat.v) is hand-written; its agreement with the Rust code is re-checked on every run by applying the same '
               'histories to two real StorageEngines and comparing every answer and the materialized-relation set with the model inside Coq, not '
               'proved. The reference Datalog evaluator covers positive/negated atoms and constants (no aggregates, arithmetic, comparisons); it is '
               'the stratified least model for rule sets without mutual recursion. The generator keeps to clause shapes the query engine evaluates '
               'correctly (a head that unions a two-atom join clause with another clause is mis-evaluated by the engine with and without incremental '
               'maintenance: wrong arity / empty answers; that is a query-evaluation defect outside C18, observed on 9 of 120 unrestricted '
               'histories at /repo 3500a31 and reported to the builder of C05, who repaired it in d7e60de/f64b984; the restriction is kept). Rule-catalog validation is an input of the model (the accept/reject verdict of the real catalog).',
    bin='c18', n_quick=300, n_thorough=1500,
    technique='Coq proof (invariant over histories) + differential correspondence of the executable model against two real StorageEngines',
    corr_name='Model/Mat.v (step/query_inc) vs StorageEngine with enable_incremental',
    rule='corpus of 11 hand-written histories (witnesses of the 4 known classes, flat recursive/negated rules materialized and invalidated, '
         'drop/re-register, noise) then random histories of 5-17 operations over 4 base relations (arity 1-2, ints and strings) and 5 rule heads: '
         'inserts (duplicates), deletes (absent tuples), registrations (copy/swap/projection/constant/negation/join/transitive-closure step, '
         'over base and over lower derived relations), rejected registrations (self-negation, unbound head/negated variables), clause removals '
         '(valid and out of range), drops (existing and missing), inserts into views, enable_incremental at the start / in the middle / never / '
         'twice; every second history also calls materialize_derived_relation with the engine\'s own answer. After EVERY operation all mentioned '
         'relations are queried on both engines. non-trivial = some rule head had a non-empty answer and either a materialization was live while a '
         'later write or rule change happened, or (histories of the property\'s own operations) a rule was registered after enabling; distinct by '
         'full history text',
    trusted_base=['no hooks: public API only (StorageEngine::{insert_tuples_into, delete_tuples_from, register_rule_in, remove_rule_clause_in, '
                  'drop_rule_in, with_kg_mut/with_kg_read, get_snapshot_for, execute_query_with_rules_tuples_on}, '
                  'KnowledgeGraph::{enable_incremental, materialize_derived_relation})',
                  'Differential Dataflow evaluation inside IQLEngine is not modelled; the reference evaluator is compared with it on every answer'],
    assumptions=['the catalog\'s accept/reject verdict for a registration is taken from the implementation (theorems hold for every verdict)',
                 'explicit materialization stores the engine\'s own current answer for the relation (what a correct caller stores)'],
)
