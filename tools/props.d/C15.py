CFG = dict(
    props_file='Props/C15.v',
    coq_targets=['Checks/C15.vo', 'Props/C15.vo'],
    level_text='For ALL programs (writers with multi-tuple inserts/deletes on any relations, save and compact threads), buffer sizes and '
               'schedules of the atomic sections: C15_served_serial (the served state is the fold of the applied operations, a serial order), '
               'C15_durable_updates_partial / C15_persist_invariant (every WAL line is in its buffer, everything ever logged is in the WAL or a '
               'batch, every update of every acknowledged operation is on disk at every point - a crash anywhere keeps it). The full statement '
               'is refuted: C15_refuted_time_order (served state follows apply order, recovery follows logical-time order; known finding, class '
               '2) and C15_refuted_append_window for the pinned tree (repaired by a fix: commit). Tie: real threads are driven through enumerated '
               'and random interleavings of the sched_point hooks; after EVERY step the data directory is copied and reopened (crash); each '
               'executed schedule is replayed in the model inside Coq (labels, results, apply order, served state, recovered state at every '
               "crash point) and the serializability/durability specification is evaluated on the implementation's own output.",
    level_note='_partial: durability is proved at the level of logged updates; that the recovered STATE equals a serial state does not hold '
               '(class 2) and is not proved for the executions outside that class. Schedule property, partial by nature: atomic sections = '
               'spans between sched_point hooks (lock-free or one lock scope); no interleavings inside a lock scope, no weak memory, no torn '
               'or reordered disk writes (C13), parking_lot/DashMap assumed correct; the disk is (batches, WAL) with Immediate durability.',
    bin='c15', n_quick=600, n_thorough=3000, run_timeout=3000,
    corr_name='Model/ConcPersist.v vs StorageEngine/FilePersist write, flush, compact and recovery under the schedule controller',
    rule='5 hand-written configurations (insert vs delete of one tuple: enumerated, 70 schedules; append vs save; append vs the flush '
         'another append triggers with buffer_size 2; three writers on two relations; writers vs compaction: sampled) + random '
         'configurations of 2-3 threads x 1-2 ops over 1-2 relations and 3 tuple ids, buffer sizes {never, 2, 3}, save/compact ops on '
         'single-relation configurations; one case = one executed schedule with a crash image after every step; non-trivial = the schedule '
         'switches threads at least twice; distinct by configuration + schedule text',
    trusted_base=['hooks: src/verif_hooks.rs sched_point + call sites in storage_engine/mod.rs and storage/persist/mod.rs (cfg inputlayer_verif)',
                  'schedule controller harness/src/conc_ctl.rs; crash = recursive copy of the data directory while every worker is parked, reopened with StorageEngine::new',
                  'tuples and relations interned to numbers',
                  'parking_lot locks, DashMap modelled as atomic sections; Parquet/JSON codecs not modelled (C12)'],
    assumptions=['atomic sections of the model = spans between sched_point hooks',
                 'Immediate durability mode; a crash preserves exactly the files as they are between sections (no torn/reordered writes: C13)',
                 'sequentially consistent memory'],
)
