CFG = dict(
    props_file='Props/C01.v',
    coq_targets=['Checks/C01.vo', 'Props/C01.vo'],
    bin='groupa', bin_args=['c01'], n_quick=160, n_thorough=2400,
    level_text='C01_engine_is_perfect_model: for every program, EDB and recursion depth (fuel), if the program is aggregate-free, stratified, its '
               'derived relations have no stored facts and the engine\'s execution order respects dependencies, the engine strategy (per-head '
               'evaluation in topological order, local Kleene fixpoint for self-recursive heads) returns exactly the query relation of the '
               'perfect model (iterated least fixpoints over strata). Proved by monotonicity/frame lemmas for clause evaluation, closedness, '
               'supportedness and leastness of the specification, and an environment invariant along the execution order. Mutual recursion '
               'is refuted on the faithful model (C01_refuted_mutual) and recorded as a known finding. Tie: every generated program/EDB is run '
               'on IQLEngine and compared in Coq with both the strategy model and the specification.',
    level_note='Trusted: Coq kernel; hand-written Gallina model of clause semantics (IRBuilder + Differential Dataflow operators are validated by '
               'the correspondence, not derived); harness printers. The execution-order hypothesis order_ok is discharged for every program whose head dependency graph has a rank function (acyclic apart from self-loops) and whose query head is unused elsewhere (C01_acyclic_engine_is_perfect_model via Proofs/DatalogKahn.v: soundness and completeness of the Kahn ordering; C01_execution_order_characterised: order_ok p holds iff such a rank exists); the boolean mutual_recursion (BFS) is only used to classify known-finding cases.',
    corr_name='Model/Datalog.v eval_engine vs IQLEngine::execute_tuples (all optimisations off, 1 worker)',
    rule='shape-first generator (1-4 derived heads + query, 1-3 clauses each, self recursion, 2-cycles, negation on lower heads/EDB, comparisons, '
         'integer arithmetic, wildcards, constants, string column) x 1-2 EDBs over a 3-5 value domain, plus a hand-written corpus and targeted families: shared-subplan, bound-recursive query (`__query__` head, Magic Sets shape), negated relation defined later in the text, recursive answer relation, multi-key joins with permuted key order, union of projections, two-clause query heads, shuffled rule order; '
         'non-trivial = non-empty engine answer; distinct by program text + EDB + answer',
    trusted_base=['IQLEngine public API (with_config, add_tuples, execute_tuples)'],
    assumptions=['values in generated programs are Int64 and strings; comparisons other than =/!= only between integers'],
)
