CFG = dict(
    props_file='Props/C04.v',
    coq_targets=['Checks/C04.vo', 'Props/C04.vo'],
    bin='groupa', bin_args=['c04'], n_quick=60, n_thorough=800, thorough_args=[],
    level_text='C04_clause_order_and_repetition (FULL for clause order and repetition): two programs with the same clause SET have the same perfect model on every relation and the engine strategy returns the same answer, for every EDB and fuel, under C01's decidable hypotheses (proved by leastness of both models along the dependency order). C04_consequences_perm / _dup: the immediate-consequence operator of every head is invariant under clause permutation and duplication (all programs, all databases); C04_base_facts_unchanged: an engine run never changes a stored relation; C04_perm_partial: corollary of C01 for both orderings. Engine history (reuse of one engine for unrelated programs) is covered by C04_base_facts_unchanged and by the oracle. Oracle: 3 random permutations, a duplicated clause, and a reused engine that first ran 1-3 unrelated programs, all must answer like the original; base facts compared before/after.',
    level_note='Trusted: Coq kernel; hand-written Gallina model of clause semantics and of the engine strategy (Model/Datalog.v) — IRBuilder, the optimizer passes and Differential Dataflow are validated by the correspondence, not derived; harness printers.',
    corr_name='eval_engine / perfect_model on every variant vs IQLEngine',
    rule='shape-first program generator (1-4 derived heads + query, self recursion, 2-cycles, negation, comparisons, integer arithmetic, wildcards, constants, string column) x EDBs over a 3-5 value domain, plus a hand-written corpus x {3 permutations, duplicated clause + duplicated query clause, reused engine}; non-trivial = non-empty answer and >= 3 clauses',
    trusted_base=['IQLEngine public API (with_config, add_tuples, set_max_result_rows, execute_tuples)', 'Handler::query_program / validate_rules_stratification for C34'],
    assumptions=['values in generated programs are Int64 and strings; comparisons other than =/!= only between integers'],
)
