"""Per-property configuration for tools/check.py: one file per property in tools/props.d/Cxx.py,
each defining a dict named CFG (see C36.py for the keys)."""
import os, glob, runpy
PROPS = {}
NOT_APPLICABLE = {}
# properties whose check the coordinator has verified on the unchanged tree (only these go into MANIFEST.checks)
CLAIMED = ['C01', 'C02', 'C03', 'C04', 'C05', 'C06', 'C07', 'C08', 'C09', 'C10', 'C11', 'C12', 'C13', 'C14', 'C15', 'C16', 'C17', 'C18', 'C19', 'C20', 'C21', 'C22', 'C23', 'C24', 'C25', 'C26', 'C27', 'C28', 'C29', 'C30', 'C31', 'C32', 'C33', 'C34', 'C35', 'C36']
# /repo commits that add cfg(inputlayer_verif) hooks
HOOK_COMMITS = ['48037f1', '18d37c5', '74a2aec', '9f917d6', 'fcf7241']
_d = os.path.join(os.path.dirname(os.path.abspath(__file__)), 'props.d')
for _f in sorted(glob.glob(os.path.join(_d, 'C*.py'))):
    _pid = os.path.basename(_f)[:-3]
    PROPS[_pid] = runpy.run_path(_f)['CFG']
