"""Per-property configuration for tools/check.py: one file per property in tools/props.d/Cxx.py,
each defining a dict named CFG (see C36.py for the keys)."""
import os, glob, runpy
PROPS = {}
NOT_APPLICABLE = {}
# /repo commits that add cfg(inputlayer_verif) hooks
HOOK_COMMITS = ['48037f1', '18d37c5', '74a2aec', '9f917d6', 'fcf7241']
_d = os.path.join(os.path.dirname(os.path.abspath(__file__)), 'props.d')
for _f in sorted(glob.glob(os.path.join(_d, 'C*.py'))):
    _pid = os.path.basename(_f)[:-3]
    PROPS[_pid] = runpy.run_path(_f)['CFG']
