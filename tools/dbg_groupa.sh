#!/bin/sh
# usage: dbg_groupa.sh DIR IDX  — prints spec / engine-model / implementation answers for one C01-style case
DIR=$1; IDX=$2
LINE=$(grep -h "^  ($IDX%N, " $DIR/cases_*.v | sed -e "s/^  ($IDX%N, //" -e 's/)[;]*$//')
cat > /tmp/dbg_$$.v <<EOT
From IL Require Import Checks.C01.
From Coq Require Import List NArith ZArith Bool.
Import ListNotations.
Open Scope list_scope.
Definition c := $LINE.
Eval vm_compute in (match c with C01Case f p e i _ => (perfect_model f p e, eval_engine f p e, i, topo_order p, levels p) end).
EOT
coqc -noglob -Q /verif/coq IL /tmp/dbg_$$.v; rm -f /tmp/dbg_$$.*
