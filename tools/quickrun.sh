#!/bin/sh
# usage: quickrun.sh BIN MODE N SEED  — run a harness mode + coq shards directly (no rebuild), print flagged numbers
BIN=$1; MODE=$2; N=$3; SEED=${4:-1}
D=/tmp/qr_$MODE; rm -rf $D; mkdir -p $D
/verif/cache/target/debug/$BIN $MODE --seed $SEED --n $N --out $D > $D/run.log 2>&1 || { echo "harness failed"; tail -5 $D/run.log; exit 1; }
ls $D/cases_*.v | xargs -P 12 -I{} sh -c 'coqc -noglob -Q /verif/coq IL {} > {}.out 2>&1'
cat $D/cases_*.v.out | tr -s ' \n' ' ' | sed 's/: list N/\n/g'
